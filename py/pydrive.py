#!/usr/bin/env python3
"""Python side of the binding checks (C19, C20).

  pydrive.py scenarios --seed N --tier T --out scenarios.json
  pydrive.py run --scenarios scenarios.json --out py_runs.ndjson       (needs oxmpl_py on sys.path)

Every scenario is run through the Python API with callbacks that log every call (state bits and
answer). Worlds use comparisons, + and * only, so the Rust mirror (harness/src/bin/pymirror.rs)
evaluates bit-identical callbacks.
"""
import sys, json, struct, math, random


def bits(x):
    return struct.unpack('<Q', struct.pack('<d', float(x)))[0]


def h30(s):
    """FNV-1a 64 folded to 30 bits (the Rust mirror computes the same): call records are compared
    by this hash, so that traces stay small and TLC's 32-bit integers suffice."""
    h = 0xcbf29ce484222325
    for c in s.encode():
        h ^= c
        h = (h * 0x100000001b3) & 0xFFFFFFFFFFFFFFFF
    return (h ^ (h >> 30) ^ (h >> 60)) & 0x3FFFFFFF


def rec(kind, fl, ans=None):
    s = kind + '|' + ','.join(str(bits(x)) for x in fl)
    if ans is not None:
        s += '|' + str(ans)
    return h30(s)


VARIANTS = ['rv', 'so2', 'so3', 'cmp', 'se2', 'se3']
PLANNERS = ['rrt', 'rrtc', 'rrtstar', 'prm']


def scenarios(seed, tier):
    rnd = random.Random(seed * 7919 + 13)
    out = []
    nworld = 3 if tier == 'thorough' else 1
    sid = 0
    base = {
        'rv': dict(start=[1.0, 1.0], goals=[[9.0, 9.0], [8.8, 9.1]], goal_r=0.5, maxd=0.8, radius=1.5, wall=[4.5, 5.5, -1.0, 7.0]),
        'so2': dict(start=[-2.0], goals=[[2.0], [2.1]], goal_r=0.1, maxd=0.3, radius=0.6, wall=[-0.4, 0.4]),
        'so3': dict(start=[0.0, 0.0, 0.0998334166468, 0.995004165278], goals=[[0.9489846193555862, 0.0, 0.0, 0.3153223623952687]], goal_r=0.2, maxd=0.4, radius=0.8, wall=[0.55, 0.5]),
        'cmp': dict(start=[0.5, 0.5, -1.0], goals=[[5.5, 5.5, 1.0]], goal_r=0.5, maxd=0.8, radius=1.5, wall=[2.5, 3.5, -1.0, 4.0]),
        'se2': dict(start=[1.0, 1.0, 0.0], goals=[[9.0, 1.0, 1.0]], goal_r=0.6, maxd=0.8, radius=1.5, wall=[4.5, 5.5, -1.0, 7.0]),
        'se3': dict(start=[0.5, 0.5, 0.5, 0.0, 0.0, 0.0, 1.0], goals=[[3.5, 3.5, 3.5, 0.0, 0.0, 0.0, 1.0]], goal_r=0.6, maxd=0.6, radius=1.2, wall=[2.0, 2.0, 2.0, 1.0]),
    }
    for v in VARIANTS:
        for pl in PLANNERS:
            for w in range(nworld):
                b = dict(base[v])
                sc = dict(id=sid, variant=v, planner=pl, seed=rnd.randrange(1, 10**6) + ((1 << 40) if sid % 2 else 0), bias=[0.05, 0.2, 0.5][(w + sid) % 3],
                          timeout=20.0, build=0.02, **b)
                if w > 0:
                    sc['maxd'] = b['maxd'] * [1.0, 0.6, 1.7][w % 3]
                    sc['radius'] = b['radius'] * [1.0, 1.4, 0.8][w % 3]
                out.append(sc)
                sid += 1
    # raw representations (C19): the binding hands states to the core verbatim - non-unit quaternions in a
    # goal sample, a start state, an SE(3) rotation or the centre of a bounded SO(3) space are legal inputs
    # (the core never normalises them) and must give the core's answer
    extras = [
        ('so3', dict(goals=[[0.0, 0.0, 1.2, 1.6]]), 'nonunit-goal'),
        ('so3', dict(start=[0.0, 0.0, 0.2, 1.99]), 'nonunit-start'),
        ('so3', dict(so3_bounds=[0.0, 0.0, 0.0, 2.0, 2.5]), 'nonunit-centre'),
        ('so3', dict(so3_bounds=[0.0, 0.0, 0.0998334166468, 0.995004165278, 2.2]), 'cone'),
        ('se3', dict(start=[0.5, 0.5, 0.5, 0.0, 0.0, 0.0, 2.0], goals=[[3.5, 3.5, 3.5, 0.0, 0.0, 1.2, 1.6]]), 'nonunit-rotation'),
    ]
    # resolution set through the wrapper: before the problem definition is built, and - same object -
    # after an earlier problem definition was built from it and is still alive
    for v in ['rv', 'so2', 'so3']:
        for preview in [False, True]:
            extras.append((v, dict(lvs_fraction=0.004, preview_pd=preview), 'lvs-fraction' + ('-after-pd' if preview else '')))
    for v, over, tag in extras:
        for pl in ['rrt', 'rrtc', 'rrtstar']:
            b = dict(base[v])
            b.update(over)
            out.append(dict(id=sid, variant=v, planner=pl, seed=rnd.randrange(1, 10**6), bias=0.3, timeout=4.0, build=0.02, tag=tag, **b))
            sid += 1
    # fault schedules (C20): python only. The full product variant x planner x kind x callback x
    # schedule (k-th call for several k, or every state of a region).
    faults = []
    kinds = ['raise', 'none', 'int', 'str']
    # exception classes a binding might be tempted to treat specially
    xkinds = ['raise-attr', 'raise-type', 'raise-key', 'raise-stop']
    ks = [2, 7] if tier == 'quick' else [1, 2, 3, 5, 9, 17, 40, 101]
    fid = 0
    for v in VARIANTS:
        for pl in ['rrt', 'rrtc', 'rrtstar']:
            b = dict(base[v])
            for kind in kinds:
                for target in ['valid', 'sat']:
                    for sched in ([('k', k) for k in ks] + [('region', 0)]):
                        faults.append(dict(id=10000 + len(faults), variant=v, planner=pl, seed=1000 + fid + (1 << 33) * (fid % 2), bias=0.1,
                                           timeout=3.0, build=0.05, fault=dict(kind=kind, sched=sched[0], k=sched[1], target=target), **b))
            for kind in xkinds:
                for target in ['valid', 'sat']:
                    for sched in [('k', ks[0]), ('region', 0)]:
                        faults.append(dict(id=10000 + len(faults), variant=v, planner=pl, seed=1000 + fid + (1 << 33) * (fid % 2), bias=0.1,
                                           timeout=3.0, build=0.05, fault=dict(kind=kind, sched=sched[0], k=sched[1], target=target), **b))
            fid += 1
    return {'mirror': out, 'faults': faults}


# ---------------------------------------------------------------------------------------------

def state_floats(v, s):
    if v == 'rv':
        return list(s.values)
    if v == 'so2':
        return [s.value]
    if v == 'so3':
        return [s.x, s.y, s.z, s.w]
    if v == 'cmp':
        c = s.components
        return list(c[0].values) + [c[1].value]
    if v == 'se2':
        return [s.x, s.y, s.yaw]
    if v == 'se3':
        r = s.rotation
        return [s.x, s.y, s.z, r.x, r.y, r.z, r.w]
    raise ValueError(v)


def invalid(v, f, wall):
    """True when the state is in collision. Comparisons, + and * only."""
    if v in ('rv', 'cmp', 'se2'):
        x, y = f[0], f[1]
        return x >= wall[0] and x <= wall[1] and y >= wall[2] and y <= wall[3]
    if v == 'so2':
        return f[0] > wall[0] and f[0] < wall[1]
    if v == 'so3':
        return (f[0] * f[0] + f[1] * f[1]) > wall[0] and f[2] > wall[1]
    if v == 'se3':
        dx, dy, dz = f[0] - wall[0], f[1] - wall[1], f[2] - wall[2]
        return (dx * dx + dy * dy + dz * dz) < wall[3] * wall[3]
    raise ValueError(v)


def build(v, base_mod, sc=None):
    B = base_mod
    sc = sc or {}
    if v == 'rv':
        sp = B.RealVectorStateSpace(2, [(0.0, 10.0), (0.0, 10.0)])
        mk = lambda f: B.RealVectorState(f)
        pd = B.ProblemDefinition.from_real_vector
    elif v == 'so2':
        sp = B.SO2StateSpace(None)
        mk = lambda f: B.SO2State(f[0])
        pd = B.ProblemDefinition.from_so2
    elif v == 'so3':
        sb = sc.get('so3_bounds')
        sp = B.SO3StateSpace((B.SO3State(sb[0], sb[1], sb[2], sb[3]), sb[4])) if sb else B.SO3StateSpace(None)
        mk = lambda f: B.SO3State(f[0], f[1], f[2], f[3])
        pd = B.ProblemDefinition.from_so3
    elif v == 'cmp':
        r2 = B.RealVectorStateSpace(2, [(0.0, 6.0), (0.0, 6.0)])
        so2 = B.SO2StateSpace((-1.5, 1.5))
        sp = B.CompoundStateSpace([r2, so2], [1.0, 2.0])
        mk = lambda f: B.CompoundState([B.RealVectorState([f[0], f[1]]), B.SO2State(f[2])])
        pd = B.ProblemDefinition.from_compound
    elif v == 'se2':
        sp = B.SE2StateSpace(0.5, [(0.0, 10.0), (0.0, 10.0), (-math.pi, math.pi)])
        mk = lambda f: B.SE2State(f[0], f[1], f[2])
        pd = B.ProblemDefinition.from_se2
    elif v == 'se3':
        sp = B.SE3StateSpace(1.0, [(0.0, 4.0), (0.0, 4.0), (0.0, 4.0)])
        mk = lambda f: B.SE3State(f[0], f[1], f[2], B.SO3State(f[3], f[4], f[5], f[6]))
        pd = B.ProblemDefinition.from_se3
    return sp, mk, pd


class FaultInjected(Exception):
    pass


def run_one(sc, twin=False):
    """twin=True: the fault schedule is applied as 'return False' instead of the fault."""
    import oxmpl_py.base as B
    import oxmpl_py.geometric as G
    v = sc['variant']
    sp, mk, pdctor = build(v, B, sc)
    log = []
    fault = sc.get('fault')
    counters = {'valid': 0, 'sat': 0}
    faulted_states = []

    def fault_hits(target, f):
        if not fault or fault['target'] != target:
            return False
        counters[target] += 1
        if fault['sched'] == 'k':
            return counters[target] == fault['k']
        # region: a slab of the first coordinate around the midpoint between start and goal
        mid = 0.5 * (sc['start'][0] + sc['goals'][0][0])
        w = 0.1 * abs(sc['goals'][0][0] - sc['start'][0]) + 0.05
        if len(f) >= 2 and sc['variant'] != 'so3':
            mid1 = 0.5 * (sc['start'][1] + sc['goals'][0][1])
            return abs(f[0] - mid) < w and abs(f[1] - mid1) < 3.0 * w
        return abs(f[0] - mid) < w

    def do_fault():
        k = fault['kind']
        if k == 'raise':
            raise FaultInjected('injected')
        if k == 'raise-attr':
            raise AttributeError("'NoneType' object has no attribute 'value'")
        if k == 'raise-type':
            raise TypeError('injected')
        if k == 'raise-key':
            raise KeyError('injected')
        if k == 'raise-stop':
            raise StopIteration()
        if k == 'none':
            return None
        if k == 'int':
            return 1
        return 'yes'

    def is_valid(s):
        f = state_floats(v, s)
        if fault_hits('valid', f):
            faulted_states.append([bits(x) for x in f])
            log.append(rec('v', f, 0))
            if twin:
                return False
            return do_fault()
        ans = not invalid(v, f, sc['wall'])
        log.append(rec('v', f, 1 if ans else 0))
        return ans

    goals = [mk(g) for g in sc['goals']]

    class Goal:
        def __init__(self):
            self.i = 0

        def is_satisfied(self, s):
            f = state_floats(v, s)
            if fault_hits('sat', f):
                faulted_states.append([bits(x) for x in f])
                log.append(rec('s', f, 0))
                if twin:
                    return False
                return do_fault()
            ans = sp.distance(s, goals[0]) <= sc['goal_r']
            log.append(rec('s', f, 1 if ans else 0))
            return ans

        # the rest of the goal-region protocol the binding knows about (the planners never ask for it:
        # a call is recorded, so that it would show in the stream)
        threshold = sc['goal_r']

        def distance_goal(self, s):
            f = state_floats(v, s)
            log.append(rec('d', f))
            return sp.distance(s, goals[0])

        def sample_goal(self):
            g = goals[self.i % len(goals)]
            self.i += 1
            log.append(rec('g', state_floats(v, g)))
            return g

    start = mk(sc['start'])
    keep_alive = []
    if sc.get('preview_pd'):
        keep_alive.append(pdctor(sp, start, Goal()))
    if sc.get('lvs_fraction'):
        sp.set_longest_valid_segment_fraction(sc['lvs_fraction'])
    pd = pdctor(sp, start, Goal())
    cfg = B.PlannerConfig(seed=sc['seed'])
    pl = sc['planner']
    if pl == 'rrt':
        planner = G.RRT(sc['maxd'], sc['bias'], pd, cfg)
    elif pl == 'rrtc':
        planner = G.RRTConnect(sc['maxd'], sc['bias'], pd, cfg)
    elif pl == 'rrtstar':
        planner = G.RRTStar(sc['maxd'], sc['bias'], sc['radius'], pd, cfg)
    else:
        planner = G.PRM(sc['build'], sc['radius'], pd, cfg)
    planner.setup(is_valid)
    res = None
    try:
        if pl == 'prm':
            planner.construct_roadmap()
        path = planner.solve(sc['timeout'])
        pb = [[bits(x) for x in state_floats(v, s)] for s in path.states]
        res = ['ok', h30('path|' + ';'.join(','.join(str(b) for b in st) for st in pb)), len(pb)]
        # "a failing callback never yields a path through a state on which it failed": meaningful for
        # the per-state (region) schedule; with a k-th-call schedule the same state may legitimately be
        # accepted at another call, and that case is decided by the twin comparison alone
        hit = False
        if fault and fault['sched'] == 'region':
            if fault['target'] == 'valid':
                hit = any(st in faulted_states for st in pb)
            else:
                hit = pb[-1] in faulted_states
    except BaseException as e:  # noqa
        res = ['err', str(e), 0]
        hit = False
    if pl == 'prm':
        log = log[:0]      # PRM construction is wall-clock bounded: its stream is not comparable
    out = {'id': sc['id'], 'variant': v, 'planner': pl, 'h': log, 'result': res, 'twin': twin,
           'n_faulted': len(faulted_states), 'path_hits_fault': hit}
    if pl == 'prm' and res[0] == 'ok':
        # soundness of the Python PRM path with respect to the Python callbacks
        sts = list(path.states)
        fl = [state_floats(v, s) for s in sts]
        out['prm'] = {
            'start_ok': [bits(x) for x in fl[0]] == [bits(x) for x in sc['start']],
            'goal_ok': bool(sp.distance(sts[-1], goals[0]) <= sc['goal_r']),
            'valid_ok': all(not invalid(v, f, sc['wall']) for f in fl),
            'radius_ok': all(sp.distance(a, b) < sc['radius'] for a, b in zip(sts, sts[1:])),
        }
    return out


def wrappers():
    """Wrapper values for C19/wrapper: constructor outcomes, distances, extents, canonical values."""
    import oxmpl_py.base as B
    out = []
    pi = math.pi
    lat = [-5.0, -pi, -pi / 2, 0.0, pi / 2, pi, 4.0, float('inf'), float('-inf'), float('nan')]
    for lo in lat:
        for hi in lat:
            try:
                sp = B.SO2StateSpace((lo, hi))
                r = ['ok', bits(sp.get_maximum_extent()), bits(sp.distance(B.SO2State(0.3), B.SO2State(-2.9)))]
            except ValueError as e:
                r = ['ValueError']
            except BaseException as e:
                r = ['other:' + type(e).__name__]
            out.append(['so2new', bits(lo), bits(hi), r])
            try:
                sp = B.RealVectorStateSpace(1, [(lo, hi)])
                r = ['ok', bits(sp.get_maximum_extent())]
            except ValueError:
                r = ['ValueError']
            except BaseException as e:
                r = ['other:' + type(e).__name__]
            out.append(['rvnew', bits(lo), bits(hi), r])
    for dim, n in [(0, 0), (1, 2), (2, 1), (2, 2), (0, 1)]:
        try:
            B.RealVectorStateSpace(dim, [(0.0, 1.0)] * n)
            r = ['ok']
        except ValueError:
            r = ['ValueError']
        except BaseException as e:
            r = ['other:' + type(e).__name__]
        out.append(['rvdim', dim, n, r])
    try:
        B.RealVectorStateSpace(0, None)
        r = ['ok']
    except ValueError:
        r = ['ValueError']
    out.append(['rvdim', 0, -1, r])
    for a in [-1.0, 0.0, 0.5, pi, 4.0, float('nan')]:
        try:
            sp = B.SO3StateSpace((B.SO3State(0.0, 0.0, 0.0, 1.0), a))
            r = ['ok', bits(sp.get_maximum_extent())]
        except ValueError:
            r = ['ValueError']
        except BaseException as e:
            r = ['other:' + type(e).__name__]
        out.append(['so3new', bits(a), 0, r])
    for n in [0, 1, 2, 3, 4, 5]:
        try:
            B.SE2StateSpace(1.0, [(0.0, 1.0)] * n)
            r = ['ok']
        except ValueError:
            r = ['ValueError']
        except BaseException as e:
            r = ['other:' + type(e).__name__]
        out.append(['se2dim', n, 0, r])
    for n in [0, 1, 2, 3, 4]:
        try:
            B.SE3StateSpace(1.0, [(0.0, 1.0)] * n)
            r = ['ok']
        except ValueError:
            r = ['ValueError']
        except BaseException as e:
            r = ['other:' + type(e).__name__]
        out.append(['se3dim', n, 0, r])
    # canonicalised values and distances
    for ang in [0.0, 3.0, pi, -pi, 7.0, -9.5, 100.0, 1e6, -1e9, 2 * pi, 3 * pi]:
        out.append(['so2state', bits(ang), 0, ['ok', bits(B.SO2State(ang).value), bits(B.SE2State(1.0, 2.0, ang).yaw)]])
    sp2 = B.SO2StateSpace(None)
    sp3 = B.SO3StateSpace(None)
    se2 = B.SE2StateSpace(0.5, None)
    for a, b in [(0.1, 3.0), (-3.0, 3.0), (3.1, -3.1), (10.0, -10.0)]:
        out.append(['so2dist', bits(a), bits(b), ['ok', bits(sp2.distance(B.SO2State(a), B.SO2State(b))),
                    bits(se2.distance(B.SE2State(0.0, 0.0, a), B.SE2State(3.0, 4.0, b)))]])
    q = [(0.0, 0.0, 0.0, 1.0), (1.0, 0.0, 0.0, 0.0), (0.5, 0.5, 0.5, 0.5), (-0.5, -0.5, -0.5, -0.5), (0.0, 0.6, 0.0, 0.8)]
    for i, a in enumerate(q):
        for j, b in enumerate(q):
            out.append(['so3dist', i, j, ['ok', bits(sp3.distance(B.SO3State(*a), B.SO3State(*b)))]])
    return out


def main():
    a = sys.argv[1:]
    cmd = a[0]
    opt = {a[i]: a[i + 1] for i in range(1, len(a) - 1, 2)}
    if cmd == 'scenarios':
        json.dump(scenarios(int(opt.get('--seed', 1)), opt.get('--tier', 'quick')), open(opt['--out'], 'w'))
        return
    if cmd == 'run':
        sc = json.load(open(opt['--scenarios']))
        with open(opt['--out'], 'w') as f:
            for s in sc['mirror']:
                f.write(json.dumps({'mode': 'mirror', **run_one(s)}) + '\n')
            for s in sc['faults']:
                f.write(json.dumps({'mode': 'fault', **run_one(s, twin=False)}) + '\n')
                f.write(json.dumps({'mode': 'fault', **run_one(s, twin=True)}) + '\n')
            f.write(json.dumps({'mode': 'wrappers', 'values': wrappers()}) + '\n')
        return
    raise SystemExit('unknown command')


if __name__ == '__main__':
    main()
