------------------------------- MODULE MC_PRM -------------------------------
EXTENDS PRM, Json, MCCommon

MC_Build == EnvInt("V_BUILD", 2)

Emit ==
  (MC_Emit /\ ((EmitAll /\ Len(hist') > Len(hist) /\ hist'[Len(hist')].c = "ps") \/ (pc' = "idle" /\ res'.kind # "none" /\ (pc = "build" \/ ncalls' # ncalls)))) =>
     PrintT(<<"HIST", ToJson([planner |-> "prm", topo |-> MC_T, maxd |-> 0, rad2 |-> MC_Rad2, lvs |-> MC_Lvs,
                             bias |-> "0", seeded |-> MC_Seeded, worlds |-> worlds, probs |-> probs, build |-> MC_Build,
                             calls |-> hist'])>>)
=============================================================================
