------------------------------ MODULE MCCommon ------------------------------
(* Environment-driven model-checking configuration shared by the MC_* modules, *)
(* so that one module per planner serves every tier.                            *)
EXTENDS Metric, IOUtils

EnvOr(name, default) == IF name \in DOMAIN IOEnv THEN IOEnv[name] ELSE default
EnvInt(name, default) == IF name \in DOMAIN IOEnv THEN atoi(IOEnv[name]) ELSE default
EnvBool(name, default) == IF name \in DOMAIN IOEnv THEN IOEnv[name] = "1" ELSE default

TopoKind == EnvOr("V_TOPO", "line")
TopoN == EnvInt("V_N", 5)
TopoW == EnvInt("V_W", 3)
MC_T == CASE TopoKind = "line" -> Line(TopoN)
          [] TopoKind = "ring" -> Ring(TopoN)
          [] OTHER -> Grid(TopoW, TopoN \div TopoW)
MC_MaxDist == EnvInt("V_MAXD", 2)
MC_Rad2 == EnvInt("V_RAD2", 5)
MC_Lvs == EnvInt("V_LVS", 1)
MC_Bias == EnvOr("V_BIAS", "p")
MC_Seeded == EnvBool("V_SEEDED", TRUE)
MC_MaxT == EnvInt("V_MAXT", 2)
MC_TSet == {0, MC_MaxT}
MC_MaxCalls == EnvInt("V_MAXCALLS", 2)
MC_ValidateRoots == EnvBool("V_VALIDATE_ROOTS", TRUE)
MC_RestoreRng == EnvBool("V_RESTORE_RNG", TRUE)
MC_Emit == EnvBool("V_EMIT", FALSE)
\* V_EMIT_ALL (default on): the input history of EVERY planning-iteration transition is emitted, not only those of
\* completed calls (TLC explores states: a history that reaches an already known model state would
\* otherwise never be replayed, although an implementation may tell the two apart)
EmitAll == EnvBool("V_EMIT_ALL", TRUE)

MC_Worlds ==
  LET n == MC_T.n  w == EnvOr("V_WORLDS", "all") IN
  IF w = "all" THEN SUBSET Pts(MC_T)
  ELSE IF w = "free" THEN {Pts(MC_T)}
  ELSE { Pts(MC_T), Pts(MC_T) \ {n \div 2}, Pts(MC_T) \ {0}, Pts(MC_T) \ {n - 1}, Pts(MC_T) \ {1, n - 2} }

\* the two checker objects: "same" = both accept the same set (two objects, one function); "alt" = the
\* second one may also wall off the middle of the lattice or reject point 0 (the usual start)
MC_WorldPairs ==
  LET n == MC_T.n IN
  IF EnvOr("V_WORLDS2", "same") = "same" THEN {<<W, W>> : W \in MC_Worlds}
  ELSE {<<W, W2>> : W \in MC_Worlds, W2 \in {Pts(MC_T) \ {n \div 2}, Pts(MC_T) \ {0}}}
\* "own": problem i is always installed with checker object i; "free": every combination
MC_SetupChoices == IF EnvOr("V_CHECKERS", "own") = "free" THEN (1 .. 2) \X (1 .. 2) ELSE {<<1, 1>>, <<2, 2>>}

\* bounds of the space: all points, or the index interval 0..V_REGION_HI (on a ring: an arc)
RegionHi == EnvInt("V_REGION_HI", MC_T.n - 1)
MC_Region == {p \in Pts(MC_T) : p <= RegionHi}

Interval(a, b) == {p \in Pts(MC_T) : a <= p /\ p <= b}
\* P1: start at the low end, goal at the high end (point / interval / middle) or a region that
\* already contains the start;
\* P2: the mirror image, so that answering a stale problem is visible
MC_Problems ==
  LET n == MC_T.n IN
  IF EnvOr("V_PROBLEMS", "many") = "region"
    THEN { << [start |-> 0, goal |-> {RegionHi}], [start |-> RegionHi, goal |-> {0}] >> }
  ELSE IF EnvOr("V_PROBLEMS", "many") = "one"
    THEN { << [start |-> 0, goal |-> {n - 1}], [start |-> n - 1, goal |-> {0}] >> }
  \* problem definitions listing a SECOND start state (start2: the middle of the lattice - walled off in
  \* one of the "few" worlds - resp. point 1).  The planner specifications plan from `start`, as the
  \* pinned code does; the monitor accepts any listed start as root / first path state provided the
  \* checker accepts it.
  ELSE IF EnvOr("V_PROBLEMS", "many") = "twostarts"
    THEN { << [start |-> 0, goal |-> {n - 1}, start2 |-> n \div 2], [start |-> n - 1, goal |-> {0}, start2 |-> 1] >> }
    ELSE { << [start |-> s, goal |-> g], [start |-> n - 1, goal |-> {0}] >> :
             s \in {0, 1}, g \in {{n - 1}, Interval(n - 2, n - 1), {n \div 2}, Interval(0, 1)} }
=============================================================================
