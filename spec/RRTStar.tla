------------------------------ MODULE RRTStar ------------------------------
(***************************************************************************)
(* RRT* (oxmpl/src/geometric/planners/rrt_star.rs) over a lattice, with    *)
(* the same call-history / generator / clock layer as RRT.tla, and - in    *)
(* lock step on the same sample stream - plain RRT's tree (`rtree`), so    *)
(* that C17's "same end state, no longer than RRT's path" is an invariant. *)
(*                                                                         *)
(* One iteration = sample, nearest, steer, motion check (reject => next    *)
(* iteration), neighbour set (strictly inside the radius), choose-parent   *)
(* fold (index order, strict <, motion checked only when cheaper), push,   *)
(* rewire over the same neighbour list (skip the parent, strict <, motion  *)
(* checked only when cheaper, descendants' costs not propagated), goal     *)
(* test on the new node.                                                   *)
(*                                                                         *)
(* Radius is given doubled (Rad2) so that half-integer radii exercise the  *)
(* strict comparison.                                                      *)
(***************************************************************************)
EXTENDS Extend, TLC

CONSTANTS T, MaxDist, Rad2, Lvs, Bias, Seeded, TSet, MaxCalls, WorldPairs, Problems, SetupChoices, Region,
          ValidateRoots, RestoreRng,
          NearFirst,        \* TRUE: the nearest node is the FIRST minimum (the code's tie-break) - used to
                            \* search for implementation-level counterexamples; FALSE: any nearest node
          RewireStrict      \* TRUE: rewire only when strictly cheaper (pinned code); FALSE = the
                            \* "<=" mutant, kept to show C15 is not vacuous

VARIABLES worlds, vc, probs, pd, tree, rtree, acc, pc, now, deadline, rng, src, res, rres, ncalls,
          last,    \* facts about the last iteration (for the action-level C17 rules)
          hist

vars == <<worlds, vc, probs, pd, tree, rtree, acc, pc, now, deadline, rng, src, res, rres, ncalls, last, hist>>
view == <<worlds, vc, probs, pd, tree, rtree, acc, pc, now, deadline, rng, src, res, rres, ncalls, last>>

\* what the installed checker accepts (setup installs a problem definition AND a checker)
valid == worlds[IF vc = 0 THEN 1 ELSE vc]

None == [kind |-> "none", path |-> <<>>]
Ret(k) == [kind |-> k, path |-> <<>>]
Node(s, p, c) == [s |-> s, p |-> p, c |-> c]
NoLast == [on |-> FALSE]

Kinds == CASE Bias = "0" -> {"u"} [] Bias = "1" -> {"g"} [] OTHER -> {"g", "u"}

Init ==
  /\ worlds \in WorldPairs /\ vc = 0 /\ probs \in Problems
  /\ pd = 0 /\ tree = <<>> /\ rtree = <<>> /\ acc = {} /\ pc = "idle"
  /\ now = 0 /\ deadline = 0
  /\ rng = IF Seeded THEN "seeded" ELSE "none"
  /\ src = "-" /\ res = None /\ rres = None /\ ncalls = 0 /\ last = NoLast /\ hist = <<>>

Setup(i, k) ==
  /\ pc = "idle" /\ ncalls < MaxCalls
  /\ <<i, k>> \in SetupChoices
  /\ pd' = i /\ vc' = k
  /\ tree' = <<Node(probs[i].start, 0, 0)>>
  /\ rtree' = <<Node(probs[i].start, 0, 0)>>
  /\ acc' = {} /\ res' = None /\ rres' = None /\ last' = NoLast
  /\ ncalls' = ncalls + 1
  /\ hist' = Append(hist, [c |-> "setup", i |-> i, v |-> k])
  /\ UNCHANGED <<worlds, probs, pc, now, deadline, rng, src>>

SolveBegin(t) ==
  /\ pc = "idle" /\ ncalls < MaxCalls
  /\ ncalls' = ncalls + 1
  /\ hist' = Append(hist, [c |-> "solve", t |-> t])
  /\ last' = NoLast
  /\ IF pd = 0
       THEN /\ res' = Ret("uninit") /\ rres' = Ret("uninit")
            /\ UNCHANGED <<worlds, vc, probs, pd, tree, rtree, acc, pc, now, deadline, rng, src>>
     ELSE IF ValidateRoots /\ probs[pd].start \notin valid
       THEN /\ res' = Ret("invalidstart") /\ rres' = Ret("invalidstart")
            /\ UNCHANGED <<worlds, vc, probs, pd, tree, rtree, acc, pc, now, deadline, rng, src>>
     ELSE /\ res' = None /\ rres' = None
          /\ pc' = "loop" /\ now' = 0 /\ deadline' = t
          /\ src' = IF rng = "seeded" THEN "seeded" ELSE "os"
          /\ rng' = IF rng = "seeded" THEN "taken" ELSE rng
          /\ acc' = IF ValidateRoots THEN acc \cup {probs[pd].start} ELSE acc
          /\ UNCHANGED <<worlds, vc, probs, pd, tree, rtree>>

Finish(r) ==
  /\ res' = r /\ pc' = "idle"
  /\ rng' = IF RestoreRng /\ src = "seeded" THEN "seeded" ELSE rng

TimeoutReturn ==
  /\ pc = "loop" /\ now > deadline
  /\ Finish(Ret("timeout"))
  /\ rres' = IF rres.kind = "none" THEN Ret("timeout") ELSE rres
  /\ hist' = hist
  /\ UNCHANGED <<worlds, vc, probs, pd, tree, rtree, acc, now, deadline, src, ncalls, last>>

(***************************************************************************)
(* The choose-parent fold, exactly as coded: state = [best, cost, acc].    *)
(***************************************************************************)
CostVia(tr, i, s) == tr[i].c + D(T, tr[i].s, s)

RECURSIVE ParentFold(_, _, _, _, _)
ParentFold(tr, nbrs, qnew, st, k) ==
  \* nbrs: ascending sequence of neighbour indices; k: next position
  IF k > Len(nbrs) THEN st
  ELSE LET i  == nbrs[k]
           cv == CostVia(tr, i, qnew)
       IN IF cv < st.cost
            THEN LET cm == CheckMotion(T, valid, tr[i].s, qnew, Lvs)
                     a2 == st.acc \cup AcceptedOf(valid, cm.asked)
                 IN IF cm.ok THEN ParentFold(tr, nbrs, qnew, [best |-> i, cost |-> cv, acc |-> a2], k + 1)
                             ELSE ParentFold(tr, nbrs, qnew, [st EXCEPT !.acc = a2], k + 1)
            ELSE ParentFold(tr, nbrs, qnew, st, k + 1)

Cheaper(a, b) == IF RewireStrict THEN a < b ELSE a <= b

RECURSIVE RewireFold(_, _, _, _, _)
RewireFold(tr, nbrs, newi, st, k) ==
  \* st = [tree, acc, set]; tr is only used for indices (st.tree carries the updates)
  IF k > Len(nbrs) THEN st
  ELSE LET i  == nbrs[k]
           nw == st.tree[newi]
       IN IF nw.p = i THEN RewireFold(tr, nbrs, newi, st, k + 1)
          ELSE LET cv == nw.c + D(T, st.tree[i].s, nw.s)
               IN IF Cheaper(cv, st.tree[i].c)
                    THEN LET cm == CheckMotion(T, valid, nw.s, st.tree[i].s, Lvs)
                             a2 == st.acc \cup AcceptedOf(valid, cm.asked)
                         IN IF cm.ok
                              THEN RewireFold(tr, nbrs, newi,
                                     [tree |-> [st.tree EXCEPT ![i] = Node(st.tree[i].s, newi, cv)],
                                      acc |-> a2, set |-> st.set \cup {i}], k + 1)
                              ELSE RewireFold(tr, nbrs, newi, [st EXCEPT !.acc = a2], k + 1)
                    ELSE RewireFold(tr, nbrs, newi, st, k + 1)

SortedSeq(S) ==
  LET RECURSIVE Build(_, _)
      Build(R, s) == IF R = {} THEN s
                     ELSE LET m == CHOOSE x \in R : \A y \in R : x <= y IN Build(R \ {m}, Append(s, m))
  IN Build(S, <<>>)

Iterate(kind, q, near) ==
  /\ pc = "loop" /\ now <= deadline
  /\ kind \in Kinds
  /\ q \in (IF kind = "g" THEN probs[pd].goal ELSE Region)
  /\ near \in ArgMin(T, tree, q)
  /\ (NearFirst => near = FirstMin(T, tree, q))
  /\ LET from == tree[near].s
         qnew == Steer(T, from, q, MaxDist)
         cm   == CheckMotion(T, valid, from, qnew, Lvs)
         acc1 == acc \cup AcceptedOf(valid, cm.asked)
     IN /\ now' = now + 1
        /\ hist' = Append(hist, [c |-> "it", k |-> kind, q |-> q])
        /\ IF ~cm.ok
             THEN /\ acc' = acc1 /\ last' = NoLast
                  /\ UNCHANGED <<tree, rtree, res, rres, pc, rng>>
             ELSE
               LET nset == {i \in 1 .. Len(tree) : 2 * D(T, qnew, tree[i].s) < Rad2}
                   nbrs == SortedSeq(nset)
                   pf   == ParentFold(tree, nbrs, qnew,
                              [best |-> near, cost |-> CostVia(tree, near, qnew), acc |-> acc1], 1)
                   newi == Len(tree) + 1
                   t1   == Append(tree, Node(qnew, pf.best, pf.cost))
                   rf   == RewireFold(t1, nbrs, newi, [tree |-> t1, acc |-> pf.acc, set |-> {}], 1)
                   \* plain RRT in lock step (same nearest index: the node sequences coincide)
                   rt1  == Append(rtree, Node(qnew, near, rtree[near].c + D(T, from, qnew)))
               IN /\ tree' = rf.tree
                  /\ rtree' = rt1
                  /\ acc' = rf.acc
                  /\ last' = [on |-> TRUE, new |-> newi, near |-> near, nset |-> nset,
                              parent |-> pf.best, rewired |-> rf.set, before |-> tree]
                  /\ IF qnew \in probs[pd].goal
                       THEN /\ Finish([kind |-> "ok", path |-> PathOf(tree', newi)])
                            /\ rres' = IF rres.kind = "none"
                                         THEN [kind |-> "ok", path |-> PathOf(rtree', newi)] ELSE rres
                       ELSE UNCHANGED <<res, rres, pc, rng>>
  /\ UNCHANGED <<worlds, vc, probs, pd, deadline, src, ncalls>>

Next ==
  \/ \E i \in 1 .. 2, k \in 1 .. 2 : Setup(i, k)
  \/ \E t \in TSet : SolveBegin(t)
  \/ TimeoutReturn
  \/ \E kind \in {"g", "u"}, q \in Pts(T) : \E near \in 1 .. Len(tree) : Iterate(kind, q, near)

Spec == Init /\ [][Next]_vars
\* C06 (liveness): under weak fairness of the loop every solve call returns
FairSpec == Spec /\ WF_vars(TimeoutReturn) /\ WF_vars(\E kind \in {"g", "u"}, q \in Pts(T) : \E near \in 1 .. Len(tree) : Iterate(kind, q, near))
Terminates == []<>(pc = "idle")

(***************************************************************************)
(* Properties                                                              *)
(***************************************************************************)
IsOk == res.kind = "ok"
Bound2 == Max2(2 * MaxDist, Rad2)

RECURSIVE PathLen(_)
PathLen(p) == IF Len(p) <= 1 THEN 0 ELSE D(T, p[1], p[2]) + PathLen(Tail(p))
BranchLen(tr, i) == PathLen(PathOf(tr, i))

C01_NodesValid == \A i \in 2 .. Len(tree) : tree[i].s \in valid
C01_PathValid  == IsOk => \A k \in 1 .. Len(res.path) : res.path[k] \in valid
C02_Endpoints ==
  IsOk => /\ Len(res.path) >= 1 /\ res.path[1] = probs[pd].start /\ Last(res.path) \in probs[pd].goal
C03_LinksCovered ==
  \A i \in 2 .. Len(tree) : CoversLat(T, acc, tree[tree[i].p].s, tree[i].s, Lvs)
C03_PathFollowsLinks ==
  IsOk => \A k \in 1 .. (Len(res.path) - 1) :
            \E i \in 2 .. Len(tree) : tree[i].s = res.path[k + 1] /\ tree[tree[i].p].s = res.path[k]
\* (a zero-arity constant definition: TLC evaluates it once)
RegionConvex == Convex(T, Region)
C04_InRegion ==
  (RegionConvex /\ pd # 0 /\ probs[pd].start \in Region /\ probs[pd].goal \subseteq Region)
     => \A i \in 1 .. Len(tree) : tree[i].s \in Region
\* witness (expected violated when Region is not convex): the abstract form of the SO(2) seam defect
W_AlwaysInRegion ==
  (pd # 0 /\ probs[pd].start \in Region /\ probs[pd].goal \subseteq Region) => \A i \in 1 .. Len(tree) : tree[i].s \in Region
C05_Step == \A i \in 2 .. Len(tree) : 2 * D(T, tree[tree[i].p].s, tree[i].s) <= Bound2
C06_OkImpliesReachable == IsOk => Last(res.path) \in ReachFrom(T, valid, {probs[pd].start})
C07_Provenance == Seeded => src # "os"
C08_Uninit == (res.kind = "uninit") => pd = 0

\* C15: parents in range, acyclic (every chain reaches the root), and the cost invariant that
\* makes rewiring safe
C15_WellFormed == tree # <<>> => WellFormed(tree)
C15_CostMono ==
  \A i \in 2 .. Len(tree) : tree[i].c >= tree[tree[i].p].c + D(T, tree[tree[i].p].s, tree[i].s)

\* C17: recorded cost bounds the true branch length from above
C17_CostUpper == WellFormed(tree) => \A i \in 1 .. Len(tree) : tree[i].c >= BranchLen(tree, i)

\* C17 (last iteration): cheapest valid parent; exactly the strictly-cheaper valid rewires;
\* everything else untouched
C17_LastStep ==
  last.on =>
    LET b    == last.before
        newi == last.new
        qn   == tree[newi].s
        cand == {last.near} \cup {i \in last.nset : CheckMotion(T, valid, b[i].s, qn, Lvs).ok}
        ncost == b[last.parent].c + D(T, b[last.parent].s, qn)
        should == {i \in last.nset \ {last.parent} :
                     /\ ncost + D(T, qn, b[i].s) < b[i].c
                     /\ CheckMotion(T, valid, qn, b[i].s, Lvs).ok}
    IN /\ last.parent \in cand
       /\ \A i \in cand : ncost <= b[i].c + D(T, b[i].s, qn)
       /\ RewireStrict => last.rewired = should
       /\ \A i \in 1 .. Len(b) : i \notin last.rewired => tree[i] = b[i]
       /\ \A i \in last.rewired : tree[i].p = newi /\ tree[i].c = ncost + D(T, qn, b[i].s) /\ tree[i].s = b[i].s

\* C17 (versus RRT on the same sample stream): same node sequence, recorded cost never above
\* RRT's branch length; hence same end state and no longer path.
C17_VsRRT ==
  /\ Len(tree) = Len(rtree)
  /\ \A i \in 1 .. Len(tree) : tree[i].s = rtree[i].s /\ tree[i].c <= rtree[i].c
  /\ (IsOk /\ rres.kind = "ok") =>
        /\ Last(res.path) = Last(rres.path)
        /\ PathLen(res.path) <= PathLen(rres.path)
  /\ (res.kind = "ok") <=> (rres.kind = "ok")

\* Witnesses (expected to be VIOLATED: they show the interesting branches are reachable)
W_NoRewire == last.on => last.rewired = {}
W_ParentIsNearest == last.on => last.parent = last.near
W_NoOk == ~IsOk
=============================================================================
