---------------------------- MODULE MC_RRTConnect ----------------------------
EXTENDS RRTConnect, Json, MCCommon

MC_SetupUsesPlannerRng == EnvBool("V_SETUP_PLANNER_RNG", TRUE)
MC_TakeAfterChecks == EnvBool("V_TAKE_AFTER_CHECKS", TRUE)

Emit ==
  (MC_Emit /\ ((EmitAll /\ Len(hist') > Len(hist) /\ hist'[Len(hist')].c = "it") \/ (pc' = "idle" /\ res'.kind # "none" /\ (pc = "loop" \/ ncalls' # ncalls)))) =>
     PrintT(<<"HIST", ToJson([planner |-> "rrtc", topo |-> MC_T, maxd |-> MC_MaxDist, rad2 |-> 0, lvs |-> MC_Lvs,
                             bias |-> MC_Bias, seeded |-> MC_Seeded, worlds |-> worlds, probs |-> probs,
                             calls |-> hist'])>>)
=============================================================================
