------------------------------ MODULE MC_Spaces ------------------------------
(* TLC checks the algebraic laws (C09, C10) on the exact lattice models themselves:  *)
(* the models the real functions are compared with are metrics with constant-speed  *)
(* shortest-path interpolation. Also the measure argument behind C14's SO(3) sampler *)
(* on the word lattice: the accept set is invariant under coordinate reflections and *)
(* swaps of the cell-centre lattice.                                                 *)
EXTENDS Spaces, TLC

Pts2 == {<<x, y>> : x, y \in -2 .. 2}
Pts3 == {<<x, y, z>> : x, y, z \in -1 .. 1}

ASSUME So2Laws(8) /\ So2Laws(12)
ASSUME RvLaws(Pts2) /\ RvLaws(Pts3)
ASSUME So3Laws(6) /\ So3Laws(12)

\* cell-centre lattice: centre of cell j is (2j + 1 - 2H) / 2H; accept iff sum of squares < (2H)^2
CAccept(js, H) == LET s(i) == (2 * js[i] + 1 - 2 * H) * (2 * js[i] + 1 - 2 * H)
                  IN s(1) + s(2) + s(3) + s(4) < 4 * H * H
CReflect(js, i, H) == [js EXCEPT ![i] = 2 * H - 1 - js[i]]
ASSUME LET H == 2  Cells == 0 .. (2 * H - 1) IN
       \A a, b, c, d \in Cells :
          LET js == <<a, b, c, d>> IN
          /\ \A i \in 1 .. 4 : CAccept(CReflect(js, i, H), H) = CAccept(js, H)
          /\ \A i, k \in 1 .. 4 : CAccept(Swap(js, i, k), H) = CAccept(js, H)

VARIABLE x
Init == x = 0
Next == x' = x
=============================================================================
