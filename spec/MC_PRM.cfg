CONSTANTS
  T <- MC_T
  Rad2 <- MC_Rad2
  Lvs <- MC_Lvs
  Seeded <- MC_Seeded
  Build <- MC_Build
  MaxCalls <- MC_MaxCalls
  WorldPairs <- MC_WorldPairs
  SetupChoices <- MC_SetupChoices
  Problems <- MC_Problems
  Region <- MC_Region
  RestoreRng <- MC_RestoreRng
SPECIFICATION Spec
VIEW view
CHECK_DEADLOCK FALSE
ACTION_CONSTRAINT Emit
INVARIANTS
  C01_MilestonesValid
  C01_PathValid
  C02_Endpoints
  C03_EdgesCovered
  C03_PathCovered
  C04_InRegion
  C05_Radius
  C06_OkImpliesReachable
  C06_BuildBudget
  C07_Provenance
  C08_Outcomes
  C18_Graph
  C18_Complete
  C18_QueryComplete
