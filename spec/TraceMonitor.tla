---------------------------- MODULE TraceMonitor ----------------------------
(***************************************************************************)
(* Implementation -> specification: validates recorded executions of the   *)
(* REAL planners (lattice replays and real-space runs alike) against the   *)
(* rules of the planner specifications.                                    *)
(*                                                                         *)
(* It is a TOTAL monitor: every trace line is consumed by exactly one step *)
(* (l' = l + 1), every rule that fails yields a label "Cxx/rule", the      *)
(* label is printed with run id and line number, the implementation's own  *)
(* post-state is adopted and checking continues.  The POSTCONDITION        *)
(* requires that every line was consumed.                                  *)
(*                                                                         *)
(* The rules are the property-level rules (DESIGN 3.4): any nearest node,  *)
(* any cheapest valid parent, exactly the strictly-cheaper valid rewires,  *)
(* any hop-minimal roadmap path, coverage at gap <= lvs.  Numeric facts    *)
(* arrive as integers (lengths in trace units, dense ranks) measured by    *)
(* the harness annotator; all logic is here.                               *)
(***************************************************************************)
EXTENDS Extend, Json, IOUtils, TLC, TLCExt

Rec == ndJsonDeserialize(IOEnv.TRACE)
N == Len(Rec)

VARIABLES l,      \* next line
          hdr,    \* the current run's reset record
          trees,  \* <<start tree, goal tree>>: sequences of [s, p, c]
          acc,    \* sids the checker accepted since the last setup
          api,    \* [pd, T, road] - installed problem, running call's time limit, roadmap adjacency
          nviol

mvars == <<l, hdr, trees, acc, api, nviol>>

SeqMin(s) == CHOOSE x \in SeqRange(s) : \A y \in SeqRange(s) : x <= y
ToSet(s) == SeqRange(s)
SetSum(S) == Cardinality(S)

NoHdr == [run |-> 0, planner |-> "none", mode |-> "none", lvs |-> 1, maxd |-> 0, rad |-> 0, tol |-> 0,
          bias |-> "p", seeded |-> FALSE]
NoQ == [sc |-> <<>>, goalf |-> <<>>, pidx |-> <<>>]
NoApi == [pd |-> 0, T |-> 0, road |-> <<>>, gvalid |-> TRUE, road0 |-> 0, q |-> NoQ, st1 |-> <<>>, inited |-> FALSE, panicked |-> FALSE,
          ninst |-> 0,     \* number of installations (setup / set_problem_definition) so far
          bmaxd |-> 0, brad |-> 0]   \* largest step / radius in force since the last setup

Init ==
  /\ l = 1 /\ hdr = NoHdr /\ trees = <<<<>>, <<>>>> /\ acc = {} /\ api = NoApi /\ nviol = 0

Report(v) == IF v = {} THEN TRUE ELSE PrintT("VIOL " \o ToString(hdr.run) \o " " \o ToString(l) \o " " \o ToString(v))

\* A call that panicked leaves the planner object in an unspecified state: the panic itself is
\* reported (C08), whatever the following calls of the same run do is a consequence and is not.
L(cond, label) == IF cond /\ ~api.panicked THEN {label} ELSE {}

\* the bound on the edges of a returned path: edges made earlier were bounded by the parameter values in
\* force then, so the largest step / radius assigned since the last setup counts
Bound == IF hdr.planner = "rrtstar" THEN Max2(api.bmaxd, api.brad)
         ELSE IF hdr.planner = "prm" THEN api.brad ELSE api.bmaxd

(***************************************************************************)
(* Extension rules (C01, C03, C05, C15, C16) for one extension record.     *)
(***************************************************************************)
ExtLabels(x, accNew, plain) ==
  LET n    == Len(x.dr)
      minr == IF n = 0 THEN 0 ELSE SeqMin(x.dr)
      tol  == hdr.tol
  IN IF x.add
       THEN IF x.near \notin 1 .. n THEN {"C15/parents"}
            ELSE  L(x.dr[x.near] # minr, "C16/nearest")
             \cup L(x.far = 0 /\ ~x.isq, "C16/steer-near")
             \cup L(x.far = 1 /\ (Abs(x.step - hdr.maxd) > tol \/ x.gd > tol), "C16/steer-far")
             \cup L(x.far = 2 /\ ~x.isq /\ (Abs(x.step - hdr.maxd) > tol \/ x.gd > tol), "C16/steer-far")
             \cup L(~x.nv, "C01/node-valid")
             \cup L(x.orc = 1, "C16/no-add-on-invalid")
             \cup L(plain /\ x.step > hdr.maxd + tol, "C05/edge-length")
             \cup L(plain /\ ~CoversPos(x.cov, x.len, hdr.lvs, tol), "C03/coverage[ext]")
             \* (a tree edge that was not validated at the resolution is also C15's business)
             \cup L(plain /\ ~CoversPos(x.cov, x.len, hdr.lvs, tol), "C15/edge-validated")
       ELSE L(x.orc = 0, "C16/extends")

(***************************************************************************)
(* RRT* rules (C03, C05, C15, C17): choose-parent and rewiring.            *)
(***************************************************************************)
StarLabels(x, st, tree) ==
  LET n     == Len(st.inr)
      tol   == hdr.tol
      minr  == IF Len(x.dr) = 0 THEN 0 ELSE SeqMin(x.dr)
      cand(i)    == st.inr[i] = 1 \/ x.dr[i] = minr
      maycand(i) == st.inr[i] # 0 \/ x.dr[i] = minr
      par   == st.par
      newi  == n + 1
      R     == {st.rew[j].i : j \in 1 .. Len(st.rew)}
      must(i) == i # par /\ st.inr[i] = 1 /\ st.rws[i] = 1 /\ st.rwo[i] = 0
      may(i)  == i # par /\ i \in 1 .. n /\ st.inr[i] # 0 /\ st.rws[i] # 0
  IN IF par \notin 1 .. n THEN {"C15/parents"}
     ELSE  L(~maycand(par), "C17/best-parent")
      \* a certainly-free in-radius node that is strictly cheaper than the chosen parent, or: whichever
      \* nearest node the implementation extended from (ties: any), it would have been cheaper
      \cup L(\E i \in 1 .. n : st.inr[i] = 1 /\ st.orc[i] = 0 /\ st.ccr[i] < st.ccr[par], "C17/best-parent")
      \cup L(\A m \in {m \in 1 .. n : x.dr[m] = minr} : st.ccr[m] < st.ccr[par], "C17/best-parent")
      \cup L(~st.ceq, "C17/cost-eq")
      \cup L(~CoversPos(st.pcov, st.plen, hdr.lvs, tol), "C03/coverage[parent]")
      \cup L(~CoversPos(st.pcov, st.plen, hdr.lvs, tol), "C15/edge-validated")
      \cup L(st.pstep > Max2(hdr.maxd, hdr.rad) + tol, "C05/edge-length")
      \cup L(st.pcost + tol < tree[par].c + st.pstep, "C15/cost-mono")
      \cup L(\E i \in 1 .. n : must(i) /\ i \notin R, "C17/rewire-set")
      \cup L(\E i \in R : ~may(i), "C17/rewire-set")
      \cup L(\E j \in 1 .. Len(st.rew) : st.rew[j].par # newi, "C17/rewire-set")
      \cup L(\E j \in 1 .. Len(st.rew) : ~st.rew[j].ceq, "C17/cost-eq")
      \cup L(\E j \in 1 .. Len(st.rew) : ~CoversPos(st.rew[j].cov, st.rew[j].len, hdr.lvs, tol), "C03/coverage[rewire]")
      \cup L(\E j \in 1 .. Len(st.rew) : ~CoversPos(st.rew[j].cov, st.rew[j].len, hdr.lvs, tol), "C15/edge-validated")
      \cup L(\E j \in 1 .. Len(st.rew) : st.rew[j].d > Max2(hdr.maxd, hdr.rad) + tol, "C05/edge-length")
      \cup L(\E j \in 1 .. Len(st.rew) : st.rew[j].c + tol < st.pcost + st.rew[j].d, "C15/cost-mono")
      \cup L(\E j \in 1 .. Len(st.rew) : st.rew[j].i \in 1 .. n /\ st.rew[j].i \in ToSet(Chain(tree, par)), "C15/acyclic")

ApplyRewires(tree, rew) ==
  [i \in 1 .. Len(tree) |->
     IF \E j \in 1 .. Len(rew) : rew[j].i = i
       THEN LET j == CHOOSE j \in 1 .. Len(rew) : rew[j].i = i
            IN [s |-> tree[i].s, p |-> rew[j].par, c |-> rew[j].c]
       ELSE tree[i]]

(***************************************************************************)
(* Events                                                                  *)
(***************************************************************************)
EvReset(e) ==
  /\ hdr' = e /\ trees' = <<<<>>, <<>>>> /\ acc' = {} /\ api' = NoApi
  /\ UNCHANGED nviol

SnapTree(t) == [i \in 1 .. Len(t) |-> [s |-> t[i].s, p |-> t[i].p, c |-> t[i].c]]
SnapTrees(snap) ==
  IF Len(snap.trees) = 0 THEN <<<<>>, <<>>>>
  ELSE IF Len(snap.trees) = 1 THEN <<SnapTree(snap.trees[1]), <<>>>>
  ELSE <<SnapTree(snap.trees[1]), SnapTree(snap.trees[2])>>
SnapRoad(snap) == [i \in 1 .. Len(snap.roadmap) |-> ToSet(snap.roadmap[i].e)]

RoadLabels(snap) ==
  LET r == snap.roadmap n == Len(r) IN
     L(\E i \in 1 .. n : \E j \in ToSet(r[i].e) : j \notin 1 .. n, "C18/range")
  \cup L(\E i \in 1 .. n : i \in ToSet(r[i].e), "C18/no-self-dup")
  \cup L(\E i \in 1 .. n : Cardinality(ToSet(r[i].e)) # Len(r[i].e), "C18/no-self-dup")
  \cup L(\E i \in 1 .. n : \E j \in ToSet(r[i].e) : j \in 1 .. n /\ i \notin ToSet(r[j].e), "C18/symmetric")

EvSetup(e) ==
  LET v ==  L(e.kind = "panic", "C08/panic@" \o e.site)
       \cup L(\E i \in 1 .. Len(e.roots) : e.roots[i].tr = 1 /\ ~e.roots[i].isstart, "C15/root")
       \cup L(\E i \in 1 .. Len(e.roots) : e.roots[i].tr = 2 /\ ~e.roots[i].isgoal, "C15/root")
       \cup L(hdr.planner # "prm" /\ e.kind # "panic" /\ ~(\E i \in 1 .. Len(e.roots) : e.roots[i].tr = 1), "C15/root")
       \* a roadmap kept across setup is only a defect when it is wrong for what was just installed (a
       \* milestone the new checker rejects or the new bounds exclude, a link the new checker blocks)
       \cup L(hdr.planner = "prm" /\ Len(e.snap.roadmap) # 0 /\ e.stale, "C08/latest-problem")
  IN /\ Report(v)
     /\ trees' = SnapTrees(e.snap)
     /\ acc' = {}
     /\ api' = [pd |-> e.pd, T |-> 0, road |-> SnapRoad(e.snap), road0 |-> 0, q |-> NoQ, st1 |-> api.st1, inited |-> TRUE, panicked |-> api.panicked \/ e.kind = "panic",
                 ninst |-> api.ninst + 1, bmaxd |-> e.maxd, brad |-> e.rad,
                 gvalid |-> \A i \in 1 .. Len(e.roots) : e.roots[i].tr = 2 => e.roots[i].valid]
     /\ nviol' = nviol + Cardinality(v)
     \* a problem may live on a different space: resolution and unit are those of the installed one
     /\ hdr' = [hdr EXCEPT !.lvs = e.lvs, !.maxd = e.maxd, !.rad = e.rad]

EvSetPd(e) ==
  /\ Report(L(e.kind = "panic", "C08/panic@" \o e.site))
  /\ api' = [api EXCEPT !.pd = e.pd, !.panicked = api.panicked \/ e.kind = "panic", !.ninst = api.ninst + 1,
                        !.bmaxd = e.maxd, !.brad = e.rad]
  /\ nviol' = nviol + (IF e.kind = "panic" THEN 1 ELSE 0)
  \* the replaced problem may live on another space: resolution and unit are those of the installed one
  /\ hdr' = [hdr EXCEPT !.lvs = e.lvs, !.maxd = e.maxd, !.rad = e.rad]
  /\ UNCHANGED <<trees, acc>>

\* the planner's public parameter fields were assigned: later rules use the new values
EvSetParams(e) ==
  /\ Report(L(e.kind = "panic", "C08/panic@" \o e.site))
  /\ hdr' = [hdr EXCEPT !.maxd = e.maxd, !.rad = e.rad, !.bias = e.bias]
  /\ api' = [api EXCEPT !.panicked = api.panicked \/ e.kind = "panic",
                        !.bmaxd = Max2(api.bmaxd, e.maxd), !.brad = Max2(api.brad, e.rad)]
  /\ nviol' = nviol + (IF e.kind = "panic" THEN 1 ELSE 0)
  /\ UNCHANGED <<trees, acc>>

EvSolve(e) ==
  /\ api' = [api EXCEPT !.T = e.T]
  /\ UNCHANGED <<hdr, trees, acc, nviol>>

EvPre(e) ==
  /\ acc' = acc \cup ToSet(e.newacc)
  /\ UNCHANGED <<hdr, trees, api, nviol>>

IterLabels(e, accNew) ==
  LET plain == hdr.planner # "rrtstar"
      conn  == hdr.planner = "rrtc"
      nx    == Len(e.ext)
  IN  L(e.t > api.T, "C06/deadline-at-top")
 \cup L(hdr.bias = "0" /\ e.k = "g", "C16/bias")
 \cup L(hdr.bias = "1" /\ e.k = "u", "C16/bias")
 \cup L(e.pred \in {"g", "u"} /\ e.k \in {"g", "u"} /\ e.k # e.pred, "C16/bias")
 \cup L(e.npush[1] > 1 \/ e.npush[2] > 1, "C16/one-node")
 \cup L(~conn /\ e.npush[2] > 0, "C16/one-node")
 \cup UNION {ExtLabels(e.ext[i], accNew, plain) : i \in 1 .. nx}
 \cup (IF conn /\ nx >= 1 /\ e.ext[1].tr \in {1, 2}
         THEN LET a == e.ext[1].tr IN
               L(e.sizes[a] > e.sizes[3 - a], "C16/balance")
          \cup L(nx = 2 /\ (e.ext[2].tr # 3 - a \/ ~e.ext[1].add \/ e.ext[2].tgt # e.ext[1].new), "C16/connect-once")
          \cup L(nx > 2, "C16/connect-once")
         ELSE {})
 \cup (IF e.star.on /\ nx >= 1 /\ e.ext[1].add THEN StarLabels(e.ext[1], e.star, trees[1]) ELSE {})

\* the trees after this iteration, as the events say
IterTrees(e) ==
  LET Grow(ts, x) ==
        IF ~x.add \/ x.tr \notin {1, 2} THEN ts
        ELSE LET nd == IF e.star.on THEN [s |-> x.new, p |-> e.star.par, c |-> e.star.pcost]
                                   ELSE [s |-> x.new, p |-> x.near, c |-> 0]
             IN [ts EXCEPT ![x.tr] = Append(ts[x.tr], nd)]
      t1 == IF Len(e.ext) >= 1 THEN Grow(trees, e.ext[1]) ELSE trees
      t2 == IF Len(e.ext) >= 2 THEN Grow(t1, e.ext[2]) ELSE t1
  IN IF e.star.on THEN [t2 EXCEPT ![1] = ApplyRewires(t2[1], e.star.rew)] ELSE t2

EvIter(e) ==
  LET accNew == acc \cup ToSet(e.newacc)
      v == IF e.k = "x" THEN {} ELSE IterLabels(e, accNew)
  IN /\ Report(v)
     /\ acc' = accNew
     /\ trees' = IF e.k = "x" THEN trees ELSE IterTrees(e)
     /\ nviol' = nviol + Cardinality(v)
     /\ UNCHANGED <<hdr, api>>

(***************************************************************************)
(* PRM (C01, C03, C05, C06, C08, C18)                                      *)
(***************************************************************************)
EvConstruct(e) ==
  /\ api' = [api EXCEPT !.T = e.T, !.road0 = Len(api.road)]
  /\ UNCHANGED <<hdr, trees, acc, nviol>>

PSampleLabels(e, accNew) ==
  LET tol == hdr.tol IN
      L(e.t > api.T, "C06/deadline-at-top")
 \cup L(api.road0 > 0, "C18/construct-idempotent")
 \cup L(e.q # 0 /\ e.valid /\ ~e.pushed, "C18/milestones")
 \cup L(e.pushed /\ ~e.valid, "C18/milestones")

 \* C05 bounds a link by the radius; C18 wants it strictly closer (on a lattice equality is exact)
 \cup L(\E j \in 1 .. Len(e.links) : e.links[j].linked /\ e.links[j].inr = 0, "C05/edge-length")
 \cup L(\E j \in 1 .. Len(e.links) : e.links[j].linked /\ (e.links[j].inr = 0 \/ (e.links[j].inr = 2 /\ hdr.mode = "lattice")),
        "C18/edge-justified")
 \cup L(\E j \in 1 .. Len(e.links) : e.links[j].linked /\ e.links[j].orc = 1, "C18/edge-justified")
 \cup L(\E j \in 1 .. Len(e.links) : e.links[j].linked
            /\ ~CoversPos(e.links[j].cov, e.links[j].len, hdr.lvs, tol), "C03/coverage[link]")
 \cup L(\E j \in 1 .. Len(e.links) : ~e.links[j].linked /\ e.links[j].inr = 1 /\ e.links[j].orc = 0,
        "C18/edge-complete")

EvPSample(e) ==
  LET accNew == acc \cup ToSet(e.newacc)
      v == IF e.q = 0 THEN {} ELSE PSampleLabels(e, accNew)
      me == Len(api.road) + 1
      lk == {e.links[j].i : j \in {j \in 1 .. Len(e.links) : e.links[j].linked}}
      r2 == IF e.pushed
              THEN Append([i \in 1 .. Len(api.road) |-> IF i \in lk THEN api.road[i] \cup {me} ELSE api.road[i]], lk)
              ELSE api.road
  IN /\ Report(v)
     /\ acc' = accNew
     /\ api' = [api EXCEPT !.road = r2]
     /\ nviol' = nviol + Cardinality(v)
     /\ UNCHANGED <<hdr, trees>>

RoadEq(a, b) == Len(a) = Len(b) /\ \A i \in 1 .. Len(a) : a[i] = b[i]

EvCRet(e) ==
  LET sr == SnapRoad(e.snap)
      v ==  L(e.kind = "panic", "C08/panic@" \o e.site)
       \cup L(e.kind = "abort", "C06/no-return")
       \cup L(e.kind = "querycap", "C06/unbounded")
       \cup L(~api.inited /\ e.kind \notin {"uninit", "panic"}, "C08/outcome")
       \cup L(api.inited /\ e.kind \notin {"unit", "panic", "abort", "querycap"}, "C08/outcome")
       \cup L(e.kind # "panic" /\ ~RoadEq(sr, api.road), "C18/snapshot")
       \cup RoadLabels(e.snap)
  IN /\ Report(v)
     /\ api' = [api EXCEPT !.road = sr, !.panicked = api.panicked \/ e.kind = "panic"]
     /\ nviol' = nviol + Cardinality(v)
     /\ UNCHANGED <<hdr, trees, acc>>

EvQuery(e) ==
  /\ acc' = acc \cup ToSet(e.newacc)
  /\ api' = [api EXCEPT !.q = e]
  /\ UNCHANGED <<hdr, trees, nviol>>

\* hop levels in the roadmap graph from a source set; result: function on reachable nodes
RECURSIVE RLevels(_, _, _, _)
RLevels(road, front, seen, lev) ==
  IF front = {} THEN [i \in {} |-> 0]
  ELSE LET nxt == {j \in 1 .. Len(road) : j \notin seen /\ \E i \in front : j \in road[i]}
           rest == RLevels(road, nxt, seen \cup nxt, lev + 1)
       IN [i \in front \cup DOMAIN rest |-> IF i \in front THEN lev ELSE rest[i]]
\* number of milestones on a hop-minimal chain from S to G (0 = none exists)
MinChain(road, S, G) ==
  LET lv == RLevels(road, S, S, 0)
      R  == DOMAIN lv \cap G
  IN IF R = {} THEN 0
     ELSE 1 + (CHOOSE m \in {lv[g] : g \in R} : \A g \in R : m <= lv[g])

QueryLabels(e) ==
  LET q    == api.q
      road == api.road
      nm   == Len(q.sc)
      must == {k \in 1 .. nm : q.sc[k].inr = 1 /\ q.sc[k].orc = 0}
      may  == {k \in 1 .. nm : q.sc[k].inr # 0 /\ q.sc[k].orc # 1}
      G    == {k \in 1 .. nm : q.goalf[k]}
      lo   == MinChain(road, may, G)
      hi   == MinChain(road, must, G)
      p    == q.pidx
      tol  == hdr.tol
  IN  L(api.inited /\ Len(road) = 0 /\ e.kind \notin {"unsampled", "panic"}, "C08/outcome")
 \cup L(e.kind = "unsampled" /\ Len(road) # 0, "C08/outcome")
 \cup L(api.inited /\ Len(road) # 0 /\ ~e.start_valid /\ e.kind \notin {"invalidstart", "panic"}, "C08/outcome")
 \cup (IF ~api.inited \/ Len(road) = 0 \/ ~e.start_valid \/ nm # Len(road) THEN {}
      ELSE  L(e.kind = "nosolution" /\ hi # 0, "C18/query-complete")
       \cup L(e.kind = "ok" /\ lo = 0, "C18/query-complete")
       \* (a planner may refuse as soon as ONE of several listed start states is invalid)
       \cup L(e.kind \notin {"ok", "nosolution", "timeout", "panic"} /\ ~(e.kind = "invalidstart" /\ ~e.start_valid_all), "C08/outcome")
       \cup (IF e.kind = "ok" THEN
               IF Len(p) = 0 \/ \E k \in 1 .. Len(p) : p[k] \notin 1 .. nm THEN {"C18/path-milestones"}
               ELSE  L(q.sc[p[1]].inr = 0, "C05/edge-length")
                \cup L(~CoversPos(q.sc[p[1]].cov, q.sc[p[1]].len, hdr.lvs, tol), "C03/coverage[startconn]")
                \cup L(\E k \in 1 .. (Len(p) - 1) : p[k + 1] \notin road[p[k]], "C03/path-edges")
                \cup L(~q.goalf[p[Len(p)]], "C02/last-goal")
                \cup L(lo # 0 /\ Len(p) < lo, "C18/hop-minimal")
                \cup L(hi # 0 /\ Len(p) > hi, "C18/hop-minimal")
             ELSE {}))

\* every consecutive pair of a returned path is a parent link of some tree (either direction)
IsLink(a, b) ==
  \E t \in 1 .. 2 : \E i \in 1 .. Len(trees[t]) :
     trees[t][i].p # 0 /\
     \/ (trees[t][i].s = b /\ trees[t][trees[t][i].p].s = a)
     \/ (trees[t][i].s = a /\ trees[t][trees[t][i].p].s = b)

TreesEqual(a, b) ==
  /\ Len(a) = Len(b)
  /\ \A i \in 1 .. Len(a) : a[i].s = b[i].s /\ a[i].p = b[i].p /\ a[i].c = b[i].c

CommonRetLabels(e) ==
      L(e.kind = "panic", "C08/panic@" \o e.site)
 \cup L(e.kind = "abort", "C06/no-return")
 \cup L(e.kind = "querycap", "C06/unbounded")
 \cup L(~api.inited /\ e.kind \notin {"uninit", "panic"}, "C08/outcome")
 \cup L(api.inited /\ e.kind = "uninit", "C08/outcome")
 \cup L(api.inited /\ ~e.start_valid /\ e.kind \in {"ok", "timeout", "nosolution"}, "C01/root-start")
 \cup L(api.inited /\ ~e.start_valid /\ e.kind \in {"ok", "timeout", "nosolution"}, "C08/outcome")
 \* (with several start states a planner must refuse when none is valid and may refuse when one is not)
 \cup L(e.kind = "invalidstart" /\ e.start_valid_all, "C08/outcome")
 \cup (IF e.kind = "ok" THEN
          L(Len(e.path) = 0, "C02/nonempty")
     \* a stale answer: after a re-installation the path does not fit what is installed now (it does not
     \* start at the installed start, does not end in the installed goal, runs through a state the
     \* installed checker rejects, or claims a goal that checker seals off)
     \cup L(api.ninst > 1 /\ (~e.first_is_start \/ ~e.last_goal \/ e.feas = 0 \/ \E k \in 1 .. Len(e.path) : ~e.pvalid[k]),
            "C08/latest-problem")
     \cup L(~e.first_is_start, "C02/first")
     \cup L(~e.last_goal, "C02/last-goal")
     \cup L(Len(e.path) >= 1 /\ ~e.pvalid[1], "C01/path-start-invalid")
     \cup L(Len(e.path) >= 2 /\ ~e.pvalid[Len(e.path)] /\ Len(trees[2]) >= 1 /\ e.path[Len(e.path)] = trees[2][1].s,
            "C01/path-goalroot-invalid")
     \cup L(\E k \in 2 .. Len(e.path) : ~e.pvalid[k] /\
              ~(k = Len(e.path) /\ Len(trees[2]) >= 1 /\ e.path[k] = trees[2][1].s), "C01/path-valid")
     \cup L(e.start_inb /\ \E k \in 1 .. Len(e.path) : ~e.pinb[k], "C04/in-bounds")
     \cup L(e.feas = 0, "C06/ok-implies-reachable")
     \cup L(\E k \in 1 .. Len(e.plen) : e.plen[k] > Bound + hdr.tol, "C05/edge-length")
       ELSE {})

EvRet(e) ==
  LET tree_pl == hdr.planner \in {"rrt", "rrtstar", "rrtc"}
      snapT == SnapTrees(e.snap)
      v == CommonRetLabels(e)
        \cup (IF hdr.planner = "prm" THEN QueryLabels(e) ELSE {})
        \cup (IF tree_pl THEN
                 L(~TreesEqual(snapT[1], trees[1]) \/ ~TreesEqual(snapT[2], trees[2]), "C15/snapshot")
            \cup L(e.kind = "ok" /\ \E k \in 1 .. (Len(e.path) - 1) : ~IsLink(e.path[k], e.path[k + 1]), "C03/path-edges")
            \cup L(e.kind \in {"ok", "timeout"} /\ ~api.gvalid, "C15/goal-root-valid")
              ELSE {})
  IN /\ Report(v)
     /\ trees' = IF tree_pl THEN snapT ELSE trees
     /\ nviol' = nviol + Cardinality(v)
     /\ api' = [api EXCEPT !.panicked = api.panicked \/ e.kind = "panic"]
     /\ UNCHANGED <<hdr, acc>>


(***************************************************************************)
(* C07: two instances created with the same seed and driven through the    *)
(* same calls.  The first instance's per-call generator draws and results  *)
(* are bound on first use; the second instance must repeat them exactly.   *)
(***************************************************************************)
EvStream(e) ==
  IF e.inst = 1
    THEN /\ api' = [api EXCEPT !.st1 = Append(api.st1, e)]
         /\ UNCHANGED <<hdr, trees, acc, nviol>>
    ELSE LET known == e.call \in 1 .. Len(api.st1)
             \* a call that panicked leaves the planner in an unspecified state (that is C08's
             \* business): only calls up to and including the first panic are compared
             live  == \A j \in 1 .. Len(api.st1) : j < e.call => ~api.st1[j].pan
             v == IF ~live THEN {} ELSE
                   L(hdr.seeded /\ ~known, e.tag \o "/stream")
              \cup L(hdr.seeded /\ known /\ api.st1[e.call].draws # e.draws, e.tag \o "/stream")
              \cup L(hdr.seeded /\ known /\ api.st1[e.call].res # e.res, e.tag \o "/result")
         IN /\ Report(v)
            /\ nviol' = nviol + Cardinality(v)
            /\ UNCHANGED <<hdr, trees, acc, api>>

(***************************************************************************)
(* C07, timing independence: a third same-seed instance is driven through  *)
(* the same calls on a slower clock.  Per installation epoch the flat      *)
(* sequence of planning iterations (sample drawn, nodes pushed, rewirings) *)
(* of one instance must be a prefix of the other's: time decides how many  *)
(* iterations complete, never what an iteration does.                      *)
(***************************************************************************)
PrefixOf(s, t) == Len(s) <= Len(t) /\ \A i \in 1 .. Len(s) : s[i] = t[i]
EvTiming(e) ==
  LET v ==  L(hdr.seeded /\ Len(e.a) # Len(e.b), "C07/timing")
       \* an epoch is comparable when every earlier epoch ran identically in both instances (otherwise
       \* the generator legitimately stands at a different position when the epoch begins)
       \cup L(hdr.seeded /\ Len(e.a) = Len(e.b) /\
              (\E k \in 1 .. Len(e.a) : (\A j \in 1 .. (k - 1) : e.a[j] = e.b[j])
                                        /\ (~PrefixOf(e.a[k], e.b[k])) /\ (~PrefixOf(e.b[k], e.a[k]))), "C07/timing")
  IN /\ Report(v)
     /\ nviol' = nviol + Cardinality(v)
     /\ UNCHANGED <<hdr, trees, acc, api>>

(***************************************************************************)
(* Python bindings (C19, C20): besides the stream comparison above (tag     *)
(* C19: Rust core vs Python API; tag C20: callbacks that fail vs callbacks  *)
(* that answer False at the same calls) - PRM soundness w.r.t. the Python   *)
(* callbacks, no path through a state on which a callback failed, wrapper   *)
(* values equal to the core's.                                              *)
(***************************************************************************)
EvPy(e) ==
  LET v == CASE e.ev = "pyprm" ->
                  L(~e.start_ok, "C19/prm-start") \cup L(~e.goal_ok, "C19/prm-goal")
                  \cup L(~e.valid_ok, "C19/prm-valid") \cup L(~e.radius_ok, "C19/prm-radius")
             [] e.ev = "pyfault" -> L(e.hit, "C20/path-avoids-faults") \cup L(~e.twin_same_kind, "C20/result-kind")
             [] e.ev = "pywrap" -> L(~e.same, "C19/wrapper[" \o e.kind \o "]")
  IN /\ Report(v)
     /\ nviol' = nviol + Cardinality(v)
     /\ UNCHANGED <<hdr, trees, acc, api>>

(***************************************************************************)
(* C06 probe: a degenerate parameter must not make a call unbounded.       *)
(***************************************************************************)
EvProbe(e) ==
  LET v == L(e.kind \in {"querycap", "abort"}, "C06/unbounded[" \o e.name \o "]")
        \cup L(e.kind = "panic", "C08/panic@probe:" \o e.name)
  IN /\ Report(v)
     /\ nviol' = nviol + Cardinality(v)
     /\ UNCHANGED <<hdr, trees, acc, api>>

(***************************************************************************)
(* C17: RRT* against plain RRT on the same seed, problem and budget.       *)
(***************************************************************************)
EvPair(e) ==
  LET v ==  L(~e.nodes_equal, "C17/vs-rrt[nodes]")
       \cup L(e.ok_star # e.ok_rrt, "C17/vs-rrt[outcome]")
       \cup L(e.ok_star /\ e.ok_rrt /\ ~e.same_end, "C17/vs-rrt[end]")
       \cup L(e.ok_star /\ e.ok_rrt /\ e.len_star > e.len_rrt + hdr.tol, "C17/vs-rrt[length]")
  IN /\ Report(v)
     /\ nviol' = nviol + Cardinality(v)
     /\ UNCHANGED <<hdr, trees, acc, api>>

Next ==
  /\ l <= N
  /\ l' = l + 1
  /\ LET e == Rec[l] IN
       CASE e.ev = "reset" -> EvReset(e)
         [] e.ev = "setup" -> EvSetup(e)
         [] e.ev = "setpd" -> EvSetPd(e)
         [] e.ev = "setparams" -> EvSetParams(e)
         [] e.ev = "solve" -> EvSolve(e)
         [] e.ev = "pre"   -> EvPre(e)
         [] e.ev = "iter"  -> EvIter(e)
         [] e.ev = "ret"   -> EvRet(e)
         [] e.ev = "construct" -> EvConstruct(e)
         [] e.ev = "psample" -> EvPSample(e)
         [] e.ev = "cret"  -> EvCRet(e)
         [] e.ev = "query" -> EvQuery(e)
         [] e.ev = "stream" -> EvStream(e)
         [] e.ev = "pair" -> EvPair(e)
         [] e.ev = "timing" -> EvTiming(e)
         [] e.ev = "probe" -> EvProbe(e)
         [] e.ev \in {"pyprm", "pyfault", "pywrap"} -> EvPy(e)

Spec == Init /\ [][Next]_mvars

\* every line consumed (an event no action matches leaves the trace unconsumed)
AllConsumed ==
  LET d == TLCGet("stats").diameter IN
  IF d - 1 = N THEN TRUE
  ELSE PrintT(<<"UNCONSUMED", d, N>>) /\ FALSE
=============================================================================
