INIT Init
NEXT Next
