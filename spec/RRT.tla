-------------------------------- MODULE RRT --------------------------------
(***************************************************************************)
(* The RRT planner (oxmpl/src/geometric/planners/rrt.rs) as a state        *)
(* machine over a lattice, together with the call-history layer (setup /   *)
(* solve in any order), the generator-provenance model and logical time.   *)
(*                                                                         *)
(* Grain: one action per public call boundary and one per loop iteration   *)
(* (sample, nearest, steer, motion check, push, goal test), because the    *)
(* library is sequential and those are the points an observer can see.     *)
(* Where the property allows more than the code does (ties in nearest) the *)
(* spec is as nondeterministic as the property, so a behaviour-preserving  *)
(* refactor still refines it.                                              *)
(*                                                                         *)
(* Named deviation switches (DESIGN 5.0): the property-satisfying position *)
(* is TRUE; FALSE is the behaviour of the pinned code.                     *)
(*   ValidateRoots  solve answers "invalidstart" for a start the checker   *)
(*                  rejects (pinned code: never asks)                      *)
(*   RestoreRng     the seeded generator is put back when solve returns    *)
(*                  (pinned code: `rng.take()` and never restored)         *)
(***************************************************************************)
EXTENDS Extend, TLC

CONSTANTS T,            \* topology record (Metric)
          MaxDist,      \* maximum step, lattice units
          Lvs,          \* longest valid segment length, lattice units (>= 1)
          Bias,         \* "0", "p" or "1"
          Seeded,       \* BOOLEAN: a seed was configured
          TSet,         \* solve timeouts explored (ticks; one iteration = one tick)
          MaxCalls,     \* bound on the number of API calls in a history
          WorldPairs,   \* set of <<V1, V2>>: the validity sets of the two checkers a caller may install
          Region,       \* the bounds of the space: uniform samples fall in it (C04)
          Problems,     \* set of <<P1, P2>>, each [start |-> point, goal |-> set of points]
          SetupChoices, \* set of <<problem, checker>> pairs a history may pass to setup
          ValidateRoots, RestoreRng

VARIABLES worlds,  \* <<V1, V2>>: what each of the two checker objects accepts
          vc,      \* the installed checker: 0 (none), 1 or 2
          probs,   \* the two problem definitions a caller may install
          pd,      \* installed problem: 0 (none), 1 or 2
          tree,    \* <<>> before setup
          acc,     \* points the checker accepted since the last setup
          pc,      \* "idle" | "loop"
          now, deadline,
          rng,     \* "none" (no seed) | "seeded" (Some) | "taken" (None after take())
          src,     \* generator used by the running/last solve: "-" | "seeded" | "os"
          res,     \* last return value
          ncalls,
          hist     \* replay script (not part of the VIEW)

vars == <<worlds, vc, probs, pd, tree, acc, pc, now, deadline, rng, src, res, ncalls, hist>>
view == <<worlds, vc, probs, pd, tree, acc, pc, now, deadline, rng, src, res, ncalls>>

\* what the installed checker accepts (setup installs a problem definition AND a checker)
valid == worlds[IF vc = 0 THEN 1 ELSE vc]

None == [kind |-> "none", path |-> <<>>]
Ret(k) == [kind |-> k, path |-> <<>>]
Node(s, p) == [s |-> s, p |-> p, c |-> 0]

Kinds == CASE Bias = "0" -> {"u"} [] Bias = "1" -> {"g"} [] OTHER -> {"g", "u"}

Init ==
  /\ worlds \in WorldPairs /\ vc = 0
  /\ probs \in Problems
  /\ pd = 0 /\ tree = <<>> /\ acc = {} /\ pc = "idle"
  /\ now = 0 /\ deadline = 0
  /\ rng = IF Seeded THEN "seeded" ELSE "none"
  /\ src = "-"
  /\ res = None /\ ncalls = 0
  /\ hist = <<>>

(***************************************************************************)
(* setup(problem i, checker k): installs both, clears the tree,            *)
(* pushes the start as root.  No validity query.                           *)
(***************************************************************************)
Setup(i, k) ==
  /\ pc = "idle" /\ ncalls < MaxCalls
  /\ <<i, k>> \in SetupChoices
  /\ pd' = i /\ vc' = k
  /\ tree' = <<Node(probs[i].start, 0)>>
  /\ acc' = {}
  /\ res' = None
  /\ ncalls' = ncalls + 1
  /\ hist' = Append(hist, [c |-> "setup", i |-> i, v |-> k])
  /\ UNCHANGED <<worlds, probs, pc, now, deadline, rng, src>>

(***************************************************************************)
(* solve(t): uninitialised check first (the generator is not touched on    *)
(* that path), then the generator is taken and the clock started.          *)
(***************************************************************************)
SolveBegin(t) ==
  /\ pc = "idle" /\ ncalls < MaxCalls
  /\ ncalls' = ncalls + 1
  /\ hist' = Append(hist, [c |-> "solve", t |-> t])
  /\ IF pd = 0
       THEN /\ res' = Ret("uninit")
            /\ UNCHANGED <<worlds, vc, probs, pd, tree, acc, pc, now, deadline, rng, src>>
     ELSE IF ValidateRoots /\ probs[pd].start \notin valid
       THEN /\ res' = Ret("invalidstart")
            /\ UNCHANGED <<worlds, vc, probs, pd, tree, acc, pc, now, deadline, rng, src>>
     ELSE /\ res' = None
          /\ pc' = "loop"
          /\ now' = 0
          /\ deadline' = t
          /\ src' = IF rng = "seeded" THEN "seeded" ELSE "os"
          /\ rng' = IF rng = "seeded" THEN "taken" ELSE rng
          /\ acc' = IF ValidateRoots THEN acc \cup {probs[pd].start} ELSE acc
          /\ UNCHANGED <<worlds, vc, probs, pd, tree>>

Finish(r) ==
  /\ res' = r
  /\ pc' = "idle"
  /\ rng' = IF RestoreRng /\ src = "seeded" THEN "seeded" ELSE rng

(***************************************************************************)
(* Loop top: the deadline is examined here and only here.                  *)
(***************************************************************************)
TimeoutReturn ==
  /\ pc = "loop" /\ now > deadline
  /\ Finish(Ret("timeout"))
  /\ hist' = hist
  /\ UNCHANGED <<worlds, vc, probs, pd, tree, acc, now, deadline, src, ncalls>>

(***************************************************************************)
(* One iteration: sample (goal-biased), nearest, steer, motion check,      *)
(* push, goal test.  near ranges over ArgMin (property level).             *)
(***************************************************************************)
Iterate(kind, q, near) ==
  /\ pc = "loop" /\ now <= deadline
  /\ kind \in Kinds
  /\ q \in (IF kind = "g" THEN probs[pd].goal ELSE Region)
  /\ near \in ArgMin(T, tree, q)
  /\ LET from == tree[near].s
         qnew == Steer(T, from, q, MaxDist)
         cm   == CheckMotion(T, valid, from, qnew, Lvs)
     IN /\ acc' = acc \cup AcceptedOf(valid, cm.asked)
        /\ now' = now + 1
        /\ hist' = Append(hist, [c |-> "it", k |-> kind, q |-> q])
        /\ IF cm.ok
             THEN /\ tree' = Append(tree, Node(qnew, near))
                  /\ IF qnew \in probs[pd].goal
                       THEN Finish([kind |-> "ok", path |-> PathOf(tree', Len(tree'))])
                       ELSE UNCHANGED <<res, pc, rng>>
             ELSE UNCHANGED <<tree, res, pc, rng>>
  /\ UNCHANGED <<worlds, vc, probs, pd, deadline, src, ncalls>>

Next ==
  \/ \E i \in 1 .. 2, k \in 1 .. 2 : Setup(i, k)
  \/ \E t \in TSet : SolveBegin(t)
  \/ TimeoutReturn
  \/ \E kind \in {"g", "u"}, q \in Pts(T) : \E near \in 1 .. Len(tree) : Iterate(kind, q, near)

Spec == Init /\ [][Next]_vars
FairSpec == Spec /\ WF_vars(TimeoutReturn) /\ WF_vars(\E kind \in {"g", "u"}, q \in Pts(T) : \E near \in 1 .. Len(tree) : Iterate(kind, q, near))

(***************************************************************************)
(* Properties                                                              *)
(***************************************************************************)
TypeOK ==
  /\ pd \in 0 .. 2 /\ pc \in {"idle", "loop"}
  /\ rng \in {"none", "seeded", "taken"} /\ src \in {"-", "seeded", "os"}
  /\ res.kind \in {"none", "ok", "timeout", "uninit", "invalidstart"}

IsOk == res.kind = "ok"

\* C01: every node other than the root, and every state of a returned path, is valid; an
\* invalid start is reported, never returned.
C01_NodesValid == \A i \in 2 .. Len(tree) : tree[i].s \in valid
C01_PathValid  == IsOk => \A k \in 1 .. Len(res.path) : res.path[k] \in valid

\* C02: a returned path starts at the start of the installed problem and ends in its goal.
C02_Endpoints ==
  IsOk => /\ Len(res.path) >= 1
          /\ res.path[1] = probs[pd].start
          /\ Last(res.path) \in probs[pd].goal

\* C03: every parent link was motion-checked at the resolution, and a returned path follows
\* parent links.
C03_LinksCovered ==
  \A i \in 2 .. Len(tree) : CoversLat(T, acc, tree[tree[i].p].s, tree[i].s, Lvs)
C03_PathFollowsLinks ==
  IsOk => \A k \in 1 .. (Len(res.path) - 1) :
            \E i \in 2 .. Len(tree) : tree[i].s = res.path[k + 1] /\ tree[tree[i].p].s = res.path[k]

\* C04: planners create states only by sampling and by moving along geodesics between existing
\* states and samples, so a geodesically convex region containing the start and the goal is never
\* left (with a non-convex region - a ring arc longer than half the ring - TLC exhibits the escape)
\* (a zero-arity constant definition: TLC evaluates it once)
RegionConvex == Convex(T, Region)
C04_InRegion ==
  (RegionConvex /\ pd # 0 /\ probs[pd].start \in Region /\ probs[pd].goal \subseteq Region)
     => \A i \in 1 .. Len(tree) : tree[i].s \in Region

\* C05: no link longer than the step.
\* witness (expected violated when Region is not convex): the abstract form of the SO(2) seam defect
W_AlwaysInRegion ==
  (pd # 0 /\ probs[pd].start \in Region /\ probs[pd].goal \subseteq Region) => \A i \in 1 .. Len(tree) : tree[i].s \in Region
C05_Step == \A i \in 2 .. Len(tree) : D(T, tree[tree[i].p].s, tree[i].s) <= MaxDist

\* C06: a path is only ever claimed for a goal that is reachable through valid points
\* (Lvs = 1: every lattice point of every link was asked about).
C06_OkImpliesReachable ==
  IsOk => Last(res.path) \in ReachFrom(T, valid, {probs[pd].start})
\* the running solve has not overshot: an iteration only starts at or before the deadline,
\* so the clock is at most one iteration past it
C06_Deadline == pc = "loop" => now <= deadline + 1
Terminates == []<>(pc = "idle")

\* C07: with a seed configured no decision is ever taken from OS entropy.
C07_Provenance == Seeded => src # "os"

\* C08: solve before setup says so; after setup it never does.
C08_Uninit == (res.kind = "uninit") => pd = 0

\* C15: the tree is a tree.
C15_WellFormed == tree # <<>> => WellFormed(tree)

\* C16 (action level): at most one node per iteration, hung under a nearest node, at the
\* steered position.
C16_Step ==
  [][ /\ Len(tree') <= Len(tree) + 1
      /\ (pd' = pd /\ Len(tree') = Len(tree) + 1) =>
           LET n == tree'[Len(tree')] IN
           /\ SubSeq(tree', 1, Len(tree)) = tree
           /\ n.p \in 1 .. Len(tree)
           /\ D(T, tree[n.p].s, n.s) <= MaxDist ]_vars
=============================================================================
