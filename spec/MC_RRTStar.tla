----------------------------- MODULE MC_RRTStar -----------------------------
EXTENDS RRTStar, Json, MCCommon

MC_RewireStrict == EnvBool("V_REWIRE_STRICT", TRUE)
MC_NearFirst == EnvBool("V_NEAR_FIRST", FALSE)

Emit ==
  (MC_Emit /\ ((EmitAll /\ Len(hist') > Len(hist) /\ hist'[Len(hist')].c = "it") \/ (pc' = "idle" /\ res'.kind # "none" /\ (pc = "loop" \/ ncalls' # ncalls)))) =>
     PrintT(<<"HIST", ToJson([planner |-> "rrtstar", topo |-> MC_T, maxd |-> MC_MaxDist, rad2 |-> MC_Rad2, lvs |-> MC_Lvs,
                             bias |-> MC_Bias, seeded |-> MC_Seeded, worlds |-> worlds, probs |-> probs,
                             calls |-> hist'])>>)
=============================================================================
