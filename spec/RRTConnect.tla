----------------------------- MODULE RRTConnect -----------------------------
(***************************************************************************)
(* RRT-Connect (oxmpl/src/geometric/planners/rrt_connect.rs) over a        *)
(* lattice.  Two trees: trees[1] rooted at the start, trees[2] rooted at a *)
(* goal sample drawn in `setup`.                                           *)
(*                                                                         *)
(* Iteration (as coded): the start tree is grown iff it is not larger than *)
(* the goal tree; sample (goal-biased); extend the grown tree toward the   *)
(* sample; if a node qnew was added: when growing the start tree and qnew  *)
(* satisfies the goal, return the start branch; otherwise extend the OTHER *)
(* tree ONCE toward qnew; if that extension reached qnew (distance within  *)
(* one step and motion valid) return start branch ++ reversed goal branch  *)
(* without the duplicated junction.                                        *)
(*                                                                         *)
(* Deviation switches (TRUE = property-satisfying, FALSE = pinned code):   *)
(*   ValidateRoots        solve reports an invalid start ("invalidstart")  *)
(*                        and refuses an invalid goal root ("nosolution")  *)
(*   RestoreRng           the seeded generator is restored on return       *)
(*   SetupUsesPlannerRng  the goal root is drawn from the planner's own    *)
(*                        generator (pinned code: the thread generator)    *)
(*   TakeAfterChecks      the generator is taken only after the            *)
(*                        uninitialised checks (pinned code: before)       *)
(***************************************************************************)
EXTENDS Extend, TLC

CONSTANTS T, MaxDist, Lvs, Bias, Seeded, TSet, MaxCalls, WorldPairs, Problems, SetupChoices, Region,
          ValidateRoots, RestoreRng, SetupUsesPlannerRng, TakeAfterChecks

VARIABLES worlds, vc, probs, pd, trees, acc, pc, now, deadline, rng, src, thr, res, route, ncalls, hist

vars == <<worlds, vc, probs, pd, trees, acc, pc, now, deadline, rng, src, thr, res, route, ncalls, hist>>
view == <<worlds, vc, probs, pd, trees, acc, pc, now, deadline, rng, src, thr, res, route, ncalls>>

\* what the installed checker accepts (setup installs a problem definition AND a checker)
valid == worlds[IF vc = 0 THEN 1 ELSE vc]

None == [kind |-> "none", path |-> <<>>]
Ret(k) == [kind |-> k, path |-> <<>>]
Node(s, p) == [s |-> s, p |-> p, c |-> 0]
Kinds == CASE Bias = "0" -> {"u"} [] Bias = "1" -> {"g"} [] OTHER -> {"g", "u"}

Init ==
  /\ worlds \in WorldPairs /\ vc = 0 /\ probs \in Problems
  /\ pd = 0 /\ trees = <<<<>>, <<>>>> /\ acc = {} /\ pc = "idle"
  /\ now = 0 /\ deadline = 0
  /\ rng = IF Seeded THEN "seeded" ELSE "none"
  /\ src = "-" /\ thr = FALSE
  /\ res = None /\ route = "-" /\ ncalls = 0 /\ hist = <<>>

\* setup: both trees cleared, start pushed, ONE goal sample pushed as the goal root
Setup(i, k, g) ==
  /\ pc = "idle" /\ ncalls < MaxCalls
  /\ <<i, k>> \in SetupChoices
  /\ g \in probs[i].goal
  /\ pd' = i /\ vc' = k
  /\ trees' = <<<<Node(probs[i].start, 0)>>, <<Node(g, 0)>>>>
  /\ acc' = {} /\ res' = None /\ route' = "-"
  /\ thr' = (thr \/ ~SetupUsesPlannerRng)       \* a draw from the thread generator happened
  /\ ncalls' = ncalls + 1
  /\ hist' = Append(hist, [c |-> "setup", i |-> i, v |-> k, g |-> g])
  /\ UNCHANGED <<worlds, probs, pc, now, deadline, rng, src>>

SolveBegin(t) ==
  /\ pc = "idle" /\ ncalls < MaxCalls
  /\ ncalls' = ncalls + 1
  /\ hist' = Append(hist, [c |-> "solve", t |-> t])
  /\ route' = "-"
  /\ IF pd = 0
       THEN /\ res' = Ret("uninit")
            \* pinned code: the generator has already been taken (and is lost) at this point
            /\ rng' = IF ~TakeAfterChecks /\ rng = "seeded" /\ ~RestoreRng THEN "taken" ELSE rng
            /\ UNCHANGED <<worlds, vc, probs, pd, trees, acc, pc, now, deadline, src, thr>>
     ELSE IF ValidateRoots /\ probs[pd].start \notin valid
       THEN /\ res' = Ret("invalidstart")
            /\ UNCHANGED <<worlds, vc, probs, pd, trees, acc, pc, now, deadline, rng, src, thr>>
     ELSE IF ValidateRoots /\ trees[2][1].s \notin valid
       THEN /\ res' = Ret("nosolution")
            /\ UNCHANGED <<worlds, vc, probs, pd, trees, acc, pc, now, deadline, rng, src, thr>>
     ELSE /\ res' = None /\ pc' = "loop" /\ now' = 0 /\ deadline' = t
          /\ src' = IF rng = "seeded" THEN "seeded" ELSE "os"
          /\ rng' = IF rng = "seeded" THEN "taken" ELSE rng
          /\ acc' = IF ValidateRoots THEN acc \cup {probs[pd].start, trees[2][1].s} ELSE acc
          /\ UNCHANGED <<worlds, vc, probs, pd, trees, thr>>

Finish(r) ==
  /\ res' = r /\ pc' = "idle"
  /\ rng' = IF RestoreRng /\ src = "seeded" THEN "seeded" ELSE rng

TimeoutReturn ==
  /\ pc = "loop" /\ now > deadline
  /\ Finish(Ret("timeout"))
  /\ hist' = hist
  /\ UNCHANGED <<worlds, vc, probs, pd, trees, acc, now, deadline, src, thr, route, ncalls>>

\* one extend(tree, target): [added, tree', acc', reached, idx]
ExtendOp(tr, target, near, a0) ==
  LET from == tr[near].s
      qn   == Steer(T, from, target, MaxDist)
      cm   == CheckMotion(T, valid, from, qn, Lvs)
      a1   == a0 \cup AcceptedOf(valid, cm.asked)
  IN IF cm.ok
       THEN [added |-> TRUE, tree |-> Append(tr, Node(qn, near)), acc |-> a1,
             reached |-> D(T, from, target) <= MaxDist, new |-> qn]
       ELSE [added |-> FALSE, tree |-> tr, acc |-> a1, reached |-> FALSE, new |-> qn]

JoinPath(ts, si, gi) ==
  LET sp == PathOf(ts[1], si)
      gp == Reverse(PathOf(ts[2], gi))
  IN sp \o Tail(gp)

\* which tree grows: the code takes the start tree on equal sizes; the property allows either
\* of two equally large trees
GrowChoices == IF Len(trees[1]) < Len(trees[2]) THEN {1}
               ELSE IF Len(trees[1]) > Len(trees[2]) THEN {2} ELSE {1, 2}

Iterate(kind, q, a, nearA, nearB) ==
  /\ pc = "loop" /\ now <= deadline
  /\ kind \in Kinds
  /\ q \in (IF kind = "g" THEN probs[pd].goal ELSE Region)
  /\ a \in GrowChoices
  /\ nearA \in ArgMin(T, trees[a], q)
  /\ LET b  == 3 - a
         ea == ExtendOp(trees[a], q, nearA, acc)
     IN /\ now' = now + 1
        /\ hist' = Append(hist, [c |-> "it", k |-> kind, q |-> q])
        /\ IF ~ea.added
             THEN /\ nearB = 1
                  /\ trees' = trees /\ acc' = ea.acc
                  /\ UNCHANGED <<res, pc, rng, route>>
             ELSE IF a = 1 /\ ea.new \in probs[pd].goal
               THEN /\ nearB = 1
                    /\ trees' = [trees EXCEPT ![a] = ea.tree] /\ acc' = ea.acc
                    /\ route' = "direct"
                    /\ Finish([kind |-> "ok", path |-> PathOf(ea.tree, Len(ea.tree))])
             ELSE /\ nearB \in ArgMin(T, trees[b], ea.new)
                  /\ LET eb == ExtendOp(trees[b], ea.new, nearB, ea.acc)
                         ts == [trees EXCEPT ![a] = ea.tree, ![b] = eb.tree]
                     IN /\ trees' = ts /\ acc' = eb.acc
                        /\ IF eb.added /\ eb.reached
                             THEN /\ route' = IF a = 1 THEN "join-start" ELSE "join-goal"
                                  /\ Finish([kind |-> "ok",
                                             path |-> JoinPath(ts, Len(ts[1]), Len(ts[2]))])
                             ELSE UNCHANGED <<res, pc, rng, route>>
  /\ UNCHANGED <<worlds, vc, probs, pd, deadline, src, thr, ncalls>>

Next ==
  \/ \E i \in 1 .. 2, k \in 1 .. 2 : \E g \in Pts(T) : Setup(i, k, g)
  \/ \E t \in TSet : SolveBegin(t)
  \/ TimeoutReturn
  \/ \E kind \in {"g", "u"}, q \in Pts(T), a \in 1 .. 2 :
        \E nearA \in 1 .. Len(trees[a]), nearB \in 1 .. (Len(trees[3 - a]) + 1) :
           Iterate(kind, q, a, nearA, nearB)

Spec == Init /\ [][Next]_vars
\* C06 (liveness): under weak fairness of the loop every solve call returns
FairSpec == Spec /\ WF_vars(TimeoutReturn) /\ WF_vars(\E kind \in {"g", "u"}, q \in Pts(T), a \in 1 .. 2 :
        \E nearA \in 1 .. Len(trees[a]), nearB \in 1 .. (Len(trees[3 - a]) + 1) :
           Iterate(kind, q, a, nearA, nearB))
Terminates == []<>(pc = "idle")

(***************************************************************************)
(* Properties                                                              *)
(***************************************************************************)
IsOk == res.kind = "ok"
NonRoot(t) == 2 .. Len(trees[t])

C01_NodesValid == \A t \in 1 .. 2 : \A i \in NonRoot(t) : trees[t][i].s \in valid
C01_PathValid  == IsOk => \A k \in 1 .. Len(res.path) : res.path[k] \in valid
C02_Endpoints ==
  IsOk => /\ Len(res.path) >= 1 /\ res.path[1] = probs[pd].start /\ Last(res.path) \in probs[pd].goal
C03_LinksCovered ==
  \A t \in 1 .. 2 : \A i \in NonRoot(t) :
     CoversLat(T, acc, trees[t][trees[t][i].p].s, trees[t][i].s, Lvs)
\* every consecutive pair of a returned path is a parent link of one of the trees (either way);
\* by the direction symmetry of Geo, coverage of a link covers it in both directions
IsLink(a, b) ==
  \E t \in 1 .. 2 : \E i \in NonRoot(t) :
     \/ (trees[t][i].s = b /\ trees[t][trees[t][i].p].s = a)
     \/ (trees[t][i].s = a /\ trees[t][trees[t][i].p].s = b)
C03_PathFollowsLinks ==
  IsOk => \A k \in 1 .. (Len(res.path) - 1) : IsLink(res.path[k], res.path[k + 1])
\* (a zero-arity constant definition: TLC evaluates it once)
RegionConvex == Convex(T, Region)
C04_InRegion ==
  (RegionConvex /\ pd # 0 /\ probs[pd].start \in Region /\ probs[pd].goal \subseteq Region)
     => \A t \in 1 .. 2 : \A i \in 1 .. Len(trees[t]) : trees[t][i].s \in Region
\* witness (expected violated when Region is not convex): the abstract form of the SO(2) seam defect
W_AlwaysInRegion ==
  (pd # 0 /\ probs[pd].start \in Region /\ probs[pd].goal \subseteq Region) => \A t \in 1 .. 2 : \A i \in 1 .. Len(trees[t]) : trees[t][i].s \in Region
C05_Step ==
  /\ \A t \in 1 .. 2 : \A i \in NonRoot(t) : D(T, trees[t][trees[t][i].p].s, trees[t][i].s) <= MaxDist
  /\ IsOk => \A k \in 1 .. (Len(res.path) - 1) : D(T, res.path[k], res.path[k + 1]) <= MaxDist
C06_OkImpliesReachable == IsOk => Last(res.path) \in ReachFrom(T, valid, {probs[pd].start})
C07_Provenance == Seeded => (src # "os" /\ ~thr)
C08_Uninit == (res.kind = "uninit") => pd = 0
C15_WellFormed == \A t \in 1 .. 2 : trees[t] # <<>> => WellFormed(trees[t])
C15_Roots ==
  pd # 0 => /\ trees[1][1].s = probs[pd].start
            /\ trees[2][1].s \in probs[pd].goal
\* C16: the trees never differ in size by more than ... growth alternates: after any iteration
\* the grown tree was a smaller-or-equal one, so sizes stay within one extension of each other
C16_Balanced == pd # 0 => Abs(Len(trees[1]) - Len(trees[2])) <= 1

\* Witnesses (expected to be violated)
W_NoDirect == route # "direct"
W_NoJoinStart == route # "join-start"
W_NoJoinGoal == route # "join-goal"
=============================================================================
