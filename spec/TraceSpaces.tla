---------------------------- MODULE TraceSpaces ----------------------------
(***************************************************************************)
(* Validates the evaluations of the REAL state-space functions recorded by *)
(* harness/src/bin/spaces.rs against the exact lattice models of           *)
(* Spaces.tla: for every case the expected value is recomputed here from   *)
(* the model (integers), compared with the implementation's abstracted     *)
(* result (nearest lattice multiple k, residual in tolerance units), and   *)
(* the law flags measured on the implementation's own outputs are          *)
(* enforced.  Total monitor: one step per line, labels printed, every line *)
(* consumed.                                                               *)
(***************************************************************************)
EXTENDS Spaces, Json, IOUtils, TLC, TLCExt

Rec == ndJsonDeserialize(IOEnv.TRACE)
N == Len(Rec)
VARIABLES l, nviol
L(cond, label) == IF cond THEN {label} ELSE {}
ToSet(s) == {s[i] : i \in 1 .. Len(s)}

So2Dist_(e) ==
     L(e.k # So2Dist(e.N, e.a, e.b) \/ e.resid > 1, "C09/value")
\cup L(~e.sym, "C09/symmetry") \cup L(~e.nonneg, "C09/nonneg") \cup L(~e.diam, "C09/diameter") \cup L(~e.self0, "C09/identity")

Tri_(e) == L(e.worst > 1, "C09/triangle")

So2Interp_(e) ==
  LET want == So2Interp(e.N, e.a, e.b, e.p, e.q)
      \* exactly antipodal: either arc is a shortest path
      anti == 2 * So2Dist(e.N, e.a, e.b) = e.N
      alt  == So2Interp(e.N, e.b, e.a, e.q - e.p, e.q)
      mir  == Mod(2 * So2Cfg(e.a, e.N) * e.q - want, e.N * e.q)
  IN L(e.resid > 1 \/ ~(e.k = want \/ (anti /\ (e.k = alt \/ e.k = mir))), "C10/value")
 \cup L(~e.canon, "C10/canonical") \cup L(~e.rev /\ ~anti, "C10/reverse") \cup L(~e.prop, "C10/proportional")

So2New_(e) ==
  LET inrange == e.lo >= 0 /\ e.hi <= e.N
      wf == e.lo < e.hi /\ inrange
  IN L(wf /\ ~(e.ok /\ e.slo = e.lo /\ e.shi = e.hi), "C12/accept")
 \cup L(e.ok /\ e.lo >= e.hi, "C12/accept")
 \cup L(e.ok /\ ~e.stored_wf, "C12/stored-bounds")
 \cup L(e.ok /\ e.sample = "panic", "C12/usable")
 \cup L(e.ok /\ e.sample = "out-of-bounds", "C11/sample-sat")
 \cup L(~e.ok /\ e.err # "InvalidBound", "C12/error-kind")

So2Enforce_(e) ==
  LET c == So2Cfg(e.c, e.N)
      want == {So2Cfg(x, e.N) : x \in So2EnforceSet(e.N, e.lo, e.hi, c)}
  IN IF e.panic THEN {"C11/panic"} ELSE
     L(~e.sat1, "C11/enforce-sat") \cup L(~e.idem, "C11/idempotent") \cup L(~e.canon, "C11/canonical")
 \cup L(e.inside0 /\ ~e.unchanged, "C11/unchanged")      \* canonical and numerically inside: bitwise untouched
 \cup L(e.resid > 1 \/ e.k \notin want, "C11/value")

RvNew_(e) ==
  LET wantErr == IF e.len >= 0 /\ e.len # e.dim THEN "DimensionMismatch"
                 ELSE IF e.len < 0 THEN "ZeroDimensionUnbounded" ELSE "InvalidBound"
  IN L(e.wf_args /\ ~e.ok, "C12/accept")
 \cup L(e.ok /\ ~e.stored_wf, "C12/stored-bounds")
 \cup L(e.ok /\ e.use = "panic", "C12/usable")
 \cup L(e.ok /\ e.use = "enforce-not-sat", "C11/enforce-sat")
 \cup L(~e.ok /\ e.err # wantErr, "C12/error-kind")

RvEnforce_(e) ==
  IF e.panic THEN {"C11/panic"} ELSE
     L(~e.sat1, "C11/enforce-sat") \cup L(~e.idem, "C11/idempotent") \cup L(~e.clamp, "C11/value")
 \cup L(e.sat0 /\ ~e.unchanged, "C11/unchanged")

So3AxInterp_(e) ==
  LET want == So3AxisInterp(e.M, e.a, e.b, e.p, e.q)
      anti == 2 * So3AxisDist(e.M, e.a, e.b) = e.M
      mir  == Mod(2 * (e.a % e.M) * e.q - want, e.M * e.q)
  IN L(e.resid > 1 \/ ~(e.k = want \/ (anti /\ e.k = mir)), "C10/value")
 \cup L(~e.onaxis, "C10/value") \cup L(~e.unitq, "C10/canonical")
 \cup L(~e.rev /\ ~anti, "C10/reverse") \cup L(~e.prop, "C10/proportional")

So3Enforce_(e) ==
  IF e.panic THEN {"C11/panic"} ELSE
     L(~e.sat1 /\ ~e.sat1tol, "C11/enforce-sat")
 \cup L(~e.sat1 /\ e.sat1tol, "C11/enforce-sat[rounding]")
 \cup L(~e.idem, "C11/idempotent") \cup L(~e.unitq, "C11/canonical")
 \cup L(e.sat0 /\ ~e.unchanged, "C11/unchanged")

So3Sampler_(e) ==
  LET js == e.j  d == BallAccept(js, e.H) IN
     L(d = "accept" /\ e.words # 4, "C14/accept")
 \cup L(d = "reject" /\ e.words = 4, "C14/accept")
 \cup L(d = "accept" /\ e.words = 4 /\ ~e.parallel, "C14/projection")
 \cup L(~e.unitq, "C14/projection")

Labels(e) ==
  CASE e.sp = "so2" /\ e.op = "dist" -> So2Dist_(e)
    [] e.op = "tri" -> Tri_(e)
    [] e.sp = "so2" /\ e.op = "interp" -> So2Interp_(e)
    [] e.sp = "so2" /\ e.op = "new" -> So2New_(e)
    [] e.sp = "so2" /\ e.op = "enforce" -> So2Enforce_(e)
    [] e.sp = "so2" /\ e.op = "samplesat" -> L(~e.allin, "C11/sample-sat") \cup L(e.panic, "C11/sample-panic")
    [] e.sp = "so2" /\ e.op = "statenew" ->
         L(e.k # So2Cfg(e.a, e.N) \/ e.resid > 1 \/ ~e.canon \/ ~e.se2same, "C12/canonicalise")
    [] e.sp = "so2" /\ e.op = "statebig" -> L(~e.canon \/ ~e.congruent \/ ~e.finite, "C12/canonicalise")
    [] e.sp = "so2" /\ e.op = "sampler" -> L(e.cells # e.j, "C14/cell") \cup L(e.words # 1, "C14/words")
    [] e.sp = "rv" /\ e.op = "dist" ->
         L(e.k # RvDist2(e.u, e.v) \/ e.resid > 1, "C09/value") \cup L(~e.sym, "C09/symmetry")
         \cup L(~e.nonneg, "C09/nonneg") \cup L(~e.self0, "C09/identity")
    [] e.sp = "rv" /\ e.op = "interp" ->
         L(e.k4 # RvInterpNum(e.u, e.v, e.p, e.q) \/ e.resid > 1, "C10/value") \cup L(~e.rev, "C10/reverse")
    [] e.sp = "rv" /\ e.op = "new" -> RvNew_(e)
    [] e.sp = "rv" /\ e.op = "enforce" -> RvEnforce_(e)
    [] e.sp = "rv" /\ e.op = "samplesat" ->
         L(e.outcome = "panic", "C11/sample-panic") \cup L(e.outcome = "out-of-bounds", "C11/sample-sat")
         \cup L(e.bounded /\ e.outcome # "ok", "C11/sample-sat") \cup L(~e.bounded /\ e.outcome # "unbounded-err", "C11/sample-unbounded")
    [] e.sp = "rv" /\ e.op = "sampler" -> L(e.cells # e.j, "C14/cell") \cup L(e.words # 2, "C14/words")
    [] e.sp = "so3ax" /\ e.op = "dist" ->
         L(e.k # So3AxisDist(e.M, e.a, e.b) \/ e.resid > 1, "C09/value") \cup L(~e.sym, "C09/symmetry")
         \cup L(~e.nonneg, "C09/nonneg") \cup L(~e.diam, "C09/diameter") \cup L(~e.self0, "C09/identity")
    [] e.sp = "so3ax" /\ e.op = "interp" -> So3AxInterp_(e)
    [] e.sp = "so3t" /\ e.op = "dist" ->
         L(e.k # TDist(e.u, e.v) \/ e.resid > 1, "C09/value") \cup L(~e.negsame, "C09/rep-independent") \cup L(~e.diam, "C09/diameter")
    [] e.sp = "so3" /\ e.op = "new" ->
         L(e.ang = "-1" /\ (e.ok \/ e.err # "InvalidAngularDistance"), "C12/error-kind")
         \cup L(e.ok /\ ~e.stored_wf, "C12/stored-bounds")
         \cup L(e.ok /\ e.use # "ok", "C12/usable[" \o e.centre \o "]")
         \cup L(~e.ok /\ e.ang \in {"0", "pi/6", "pi/2", "pi"} /\ e.centre \in {"id", "x90"}, "C12/accept")
    [] e.sp = "so3" /\ e.op = "enforce" -> So3Enforce_(e)
    [] e.sp = "so3" /\ e.op = "samplesat" -> L(~e.allin, "C11/sample-sat")
    [] e.sp = "so3" /\ e.op = "normalise" -> L(e.err # e.small \/ ~e.unitq \/ ~e.parallel, "C12/normalise")
    [] e.sp = "so3" /\ e.op = "sampler" -> So3Sampler_(e)
    [] e.sp = "so3" /\ e.op = "conesampler" ->
         IF e.nearedge THEN {} ELSE
            L(e.incone /\ (e.words # 4 \/ ~e.parallel), "C14/cone")
            \cup L(~e.incone /\ (e.words # 8 \/ ~e.fallback), "C14/cone") \cup L(~e.insat, "C14/cone")
    \* K rejected proposals, then an accepted one: 4 words per proposal, output = the accepted proposal
    [] e.sp = "so3" /\ e.op = "rejectrun" ->
         L(e.words # 4 * (e.K + 1) \/ ~e.first_accepted \/ ~e.insat, "C14/rejection")
    [] e.sp = "cmp" /\ e.op = "laws" ->
         L(~e.dist, "C13/distance") \cup L(~e.interp \/ ~e.enforce \/ ~e.sat, "C13/componentwise")
         \cup L(~e.c10_end, "C10/endpoint") \cup L(~e.c10_prop, "C10/proportional") \cup L(~e.c10_rev, "C10/reverse")
    [] e.sp = "cmp" /\ e.op = "sample" ->
         L(~e.stream, "C13/stream-order") \cup L(~e.resolution, "C13/resolution") \cup L(~e.insat, "C11/sample-sat")
    [] e.op = "equals-compound" -> L(~e.ok, "C13/se-equals-compound")
    [] e.sp \in {"se2", "se3"} /\ e.op = "new" ->
         L((e.len = 3) # e.ok, "C12/accept") \cup L(~e.ok /\ e.len # 3 /\ e.err # "DimensionMismatch", "C12/error-kind")
    [] e.sp \in {"se2", "se3"} /\ e.op = "newyaw" ->
         L(e.wf # e.ok, "C12/accept") \cup L(~e.ok /\ e.err # "InvalidBound", "C12/error-kind")
    [] OTHER -> {"TOOL/unknown-event"}

Init == l = 1 /\ nviol = 0
Next ==
  /\ l <= N
  /\ l' = l + 1
  /\ LET v == Labels(Rec[l]) IN
       /\ (IF v = {} THEN TRUE ELSE PrintT("VIOL 0 " \o ToString(l) \o " " \o ToString(v)))
       /\ nviol' = nviol + Cardinality(v)
Spec == Init /\ [][Next]_<<l, nviol>>
AllConsumed == TLCGet("stats").diameter - 1 = N
=============================================================================
