------------------------------- MODULE MC_RRT -------------------------------
EXTENDS RRT, Json, MCCommon

Emit ==
  (MC_Emit /\ ((EmitAll /\ Len(hist') > Len(hist) /\ hist'[Len(hist')].c = "it") \/ (pc' = "idle" /\ res'.kind # "none" /\ (pc = "loop" \/ ncalls' # ncalls)))) =>
     PrintT(<<"HIST", ToJson([planner |-> "rrt", topo |-> MC_T, maxd |-> MC_MaxDist, rad2 |-> 0, lvs |-> MC_Lvs,
                             bias |-> MC_Bias, seeded |-> MC_Seeded, worlds |-> worlds, probs |-> probs,
                             calls |-> hist'])>>)
=============================================================================
