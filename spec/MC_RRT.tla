------------------------------- MODULE MC_RRT -------------------------------
EXTENDS RRT, Json, IOUtils

\* configuration is taken from the environment so that one module serves every tier
EnvOr(name, default) == IF name \in DOMAIN IOEnv THEN IOEnv[name] ELSE default
EnvInt(name, default) == IF name \in DOMAIN IOEnv THEN atoi(IOEnv[name]) ELSE default

TopoKind == EnvOr("V_TOPO", "line")
TopoN == EnvInt("V_N", 5)
TopoW == EnvInt("V_W", 3)
MC_T == CASE TopoKind = "line" -> Line(TopoN)
          [] TopoKind = "ring" -> Ring(TopoN)
          [] OTHER -> Grid(TopoW, TopoN \div TopoW)
MC_MaxDist == EnvInt("V_MAXD", 2)
MC_Lvs == EnvInt("V_LVS", 1)
MC_Bias == EnvOr("V_BIAS", "p")
MC_Seeded == EnvOr("V_SEEDED", "1") = "1"
MC_MaxT == EnvInt("V_MAXT", 2)
MC_TSet == {0, MC_MaxT}
MC_MaxCalls == EnvInt("V_MAXCALLS", 3)
MC_ValidateRoots == EnvOr("V_VALIDATE_ROOTS", "1") = "1"
MC_RestoreRng == EnvOr("V_RESTORE_RNG", "1") = "1"

MC_Worlds ==
  IF EnvOr("V_WORLDS", "all") = "all" THEN SUBSET Pts(MC_T)
  ELSE LET n == MC_T.n IN
       { Pts(MC_T), Pts(MC_T) \ {n \div 2}, Pts(MC_T) \ {0}, Pts(MC_T) \ {n - 1}, Pts(MC_T) \ {1, n - 2} }

\* problem pairs: P1 start at the low end, goal an interval or point at the high end;
\* P2 the mirror image so that answering a stale problem is visible
Interval(a, b) == {p \in Pts(MC_T) : a <= p /\ p <= b}
MC_Problems ==
  LET n == MC_T.n IN
  { << [start |-> s, goal |-> g], [start |-> n - 1, goal |-> {0}] >> :
      s \in {0, 1}, g \in {{n - 1}, Interval(n - 2, n - 1), {n \div 2}} }

Emit ==
  (EnvOr("V_EMIT", "0") = "1" /\ pc' = "idle" /\ res'.kind # "none" /\ (pc = "loop" \/ ncalls' # ncalls)) =>
     PrintT(<<"HIST", ToJson([topo |-> MC_T, maxd |-> MC_MaxDist, lvs |-> MC_Lvs, bias |-> MC_Bias,
                             seeded |-> MC_Seeded, valid |-> valid, probs |-> probs, calls |-> hist'])>>)
=============================================================================
