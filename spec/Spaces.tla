------------------------------- MODULE Spaces -------------------------------
(***************************************************************************)
(* Exact lattice models of the state spaces (DESIGN 2.4).  Integer         *)
(* arithmetic only.  They are the reference against which every evaluation *)
(* of the real distance / interpolate / enforce_bounds / satisfies_bounds / *)
(* constructors / samplers on lattice arguments (and their ulp, 2*pi and    *)
(* sign neighbourhoods) is validated by TraceSpaces.tla, and on which TLC   *)
(* checks the algebraic laws themselves (MC_Spaces).                        *)
(*                                                                         *)
(* SO(2):  N angles  theta_k = -pi + 2*pi*k/N, k = 0..N  (k = 0 and k = N   *)
(*         are the two representations of the seam); the configuration of k *)
(*         is k mod N; geometry is Metric's Ring(N).                        *)
(* R^n :   integer points, squared distances.                              *)
(* SO(3):  (a) rotations about one axis: the double cover Z_2M, element j   *)
(*         is the quaternion (sin(pi*j/M) axis, cos(pi*j/M)), rotation      *)
(*         j mod M of Ring(M);  (b) the binary tetrahedral group 2T: the 24 *)
(*         Hurwitz units, coordinates doubled to integers.                  *)
(***************************************************************************)
EXTENDS Metric

(***************************** SO(2) *****************************************)
So2Cfg(k, N) == k % N                         \* configuration of a lattice index
So2Dist(N, a, b) == D(Ring(N), So2Cfg(a, N), So2Cfg(b, N))        \* in units of 2*pi/N

\* interpolate(a, b, p/q): position in units of 2*pi/(N*q), as a configuration (mod N*q).
\* The code normalises both ends, takes diff = to - from folded into [-pi, pi] (an exactly
\* antipodal pair keeps the sign of the raw difference) and walks from + diff * t.
So2Interp(N, a, b, p, q) ==
  LET ca == So2Cfg(a, N)  cb == So2Cfg(b, N)
      raw == cb - ca                                  \* in steps, -(N-1) .. N-1
      diff == IF 2 * raw > N THEN raw - N ELSE IF 2 * raw < -N THEN raw + N ELSE raw
  IN Mod(ca * q + diff * p, N * q)

\* bounds [lo, hi] given as lattice indices 0..N (index N = +pi); a canonical angle index c (0..N-1,
\* 0 = -pi) satisfies them iff lo <= c <= hi
So2Sat(lo, hi, c) == lo <= c /\ c <= hi
\* enforce: already satisfying states keep their configuration; others snap to the nearer bound
\* (ring distance), ties may go either way
So2EnforceSet(N, lo, hi, c) ==
  IF So2Sat(lo, hi, c) THEN {c}
  ELSE LET dl == D(Ring(N), c, So2Cfg(lo, N))  dh == D(Ring(N), c, So2Cfg(hi, N))
       IN IF dl < dh THEN {lo} ELSE IF dh < dl THEN {hi} ELSE {lo, hi}

So2Laws(N) ==
  /\ MetricLaws(Ring(N))
  /\ \A a, b \in 0 .. N : 2 * So2Dist(N, a, b) <= N                       \* diameter pi
  /\ \A a, b \in 0 .. N : So2Dist(N, a, b) = So2Dist(N, b, a)
  /\ \A a \in 0 .. N : So2Dist(N, a, 0) = So2Dist(N, a, N)                 \* -pi and +pi coincide
  \* interpolation: endpoints, constant speed, reversal
  /\ \A a, b \in 0 .. N : \A q \in {1, 2, 3, 4} : \A p \in 0 .. q :
       LET x == So2Interp(N, a, b, p, q)
           d == So2Dist(N, a, b)
           \* ring distance in fine units between two fine positions
           fd(u, v) == D(Ring(N * q), u, v)
       IN /\ (p = 0 => x = So2Cfg(a, N) * q) /\ (p = q => x = So2Cfg(b, N) * q)
          /\ fd(So2Cfg(a, N) * q, x) = d * p
          /\ fd(x, So2Cfg(b, N) * q) = d * (q - p)
          /\ (2 * d # N => x = So2Interp(N, b, a, q - p, q))

(****************************** R^n ******************************************)
RECURSIVE SumSq(_, _)
SumSq(u, v) == IF Len(u) = 0 THEN 0 ELSE (u[1] - v[1]) * (u[1] - v[1]) + SumSq(Tail(u), Tail(v))
RvDist2(u, v) == SumSq(u, v)
\* triangle inequality on squared integer distances: sqrt(ac) <= sqrt(ab) + sqrt(bc)
\*   <=>  ac - ab - bc <= 2 sqrt(ab bc)  <=>  lhs <= 0 \/ lhs^2 <= 4 ab bc
TriangleSq(ab, bc, ac) == LET l == ac - ab - bc IN l <= 0 \/ l * l <= 4 * ab * bc
RvInterpNum(u, v, p, q) == [i \in 1 .. Len(u) |-> u[i] * q + (v[i] - u[i]) * p]     \* numerators over q
RvClamp(x, lo, hi) == IF x < lo THEN lo ELSE IF x > hi THEN hi ELSE x

RvLaws(Pt) ==
  /\ \A u, v \in Pt : RvDist2(u, v) >= 0 /\ (RvDist2(u, v) = 0 <=> u = v) /\ RvDist2(u, v) = RvDist2(v, u)
  /\ \A u, v, w \in Pt : TriangleSq(RvDist2(u, v), RvDist2(v, w), RvDist2(u, w))

(***************************** SO(3) *****************************************)
\* rotations about one axis: element j of Z_2M; rotation = j mod M; distance in units of 2*pi/M
So3AxisDist(M, a, b) == D(Ring(M), a % M, b % M)
\* slerp with hemisphere flip on the double cover: quaternion "angle" index j (half-angle pi*j/M);
\* dot = cos(pi*(b-a)/M); flip when negative. Result as a rotation (mod M) in units 2*pi/(M*q).
So3AxisInterp(M, a, b, p, q) ==
  LET raw == Mod(b - a, 2 * M)                         \* 0 .. 2M-1 half-angle steps
      \* shortest signed half-angle difference after identifying b with -b (b + M)
      r1 == IF raw > M THEN raw - 2 * M ELSE raw       \* in (-M, M]
      diff == IF 2 * r1 > M THEN r1 - M ELSE IF 2 * r1 < -M THEN r1 + M ELSE r1
  IN Mod(a * q + diff * p, M * q)

\* the 24 Hurwitz units with doubled integer coordinates <<x, y, z, w>>
Units8 == {<<2,0,0,0>>, <<-2,0,0,0>>, <<0,2,0,0>>, <<0,-2,0,0>>, <<0,0,2,0>>, <<0,0,-2,0>>, <<0,0,0,2>>, <<0,0,0,-2>>}
Units16 == {<<a, b, c, d>> : a, b, c, d \in {-1, 1}}
T24 == Units8 \cup Units16
Dot4(u, v) == u[1] * v[1] + u[2] * v[2] + u[3] * v[3] + u[4] * v[4]       \* = 4 * dot
\* 2 acos |dot| in units of pi/3: |dot| = 1 -> 0, 1/2 -> 2, 0 -> 3
TDist(u, v) == LET a == Abs(Dot4(u, v)) IN IF a = 4 THEN 0 ELSE IF a = 2 THEN 2 ELSE 3

So3Laws(M) ==
  /\ \A u, v \in T24 : Abs(Dot4(u, v)) \in {0, 2, 4}
  /\ \A u, v \in T24 : TDist(u, v) = TDist(v, u) /\ TDist(u, u) = 0 /\ TDist(u, v) <= 3
  /\ \A u, v \in T24 : TDist(u, [i \in 1 .. 4 |-> -v[i]]) = TDist(u, v)                 \* q and -q
  /\ \A u, v, w \in T24 : TDist(u, w) <= TDist(u, v) + TDist(v, w)
  /\ \A a, b \in 0 .. (2 * M - 1) : So3AxisDist(M, a, b) = So3AxisDist(M, a, b + M)      \* q and -q
  /\ \A a, b \in 0 .. (2 * M - 1) : 2 * So3AxisDist(M, a, b) <= M
  /\ \A a, b \in 0 .. (2 * M - 1) : \A q \in {1, 2, 4} : \A p \in 0 .. q :
       LET x == So3AxisInterp(M, a, b, p, q)
           d == So3AxisDist(M, a, b)
           fd(u, v) == D(Ring(M * q), u, v)
       IN /\ fd((a % M) * q, x) = d * p
          /\ fd(x, (b % M) * q) = d * (q - p)

(*************************** samplers (C14) **********************************)
\* uniform_float: the word's top B bits select the cell of an equal partition of [lo, hi) into 2^B
\* cells - a bijection between word cells and value cells, hence exactly uniform on the partition
CellOfWord(j) == j
\* SO(3): four coordinates c_i = (j_i - H) / H, H = 2^(B-1); accept iff 0 < |c|^2 < 1
BallAccept(js, H) ==
  LET s == (js[1] - H) * (js[1] - H) + (js[2] - H) * (js[2] - H) + (js[3] - H) * (js[3] - H) + (js[4] - H) * (js[4] - H)
  IN IF s = 0 \/ s > H * H THEN "reject" ELSE IF s = H * H THEN "boundary" ELSE "accept"
\* the accept set is invariant under the 384 signed coordinate permutations (checked on the
\* lattice in MC_Spaces), which is what makes the projected direction uniform
Reflect(js, i, H) == [js EXCEPT ![i] = 2 * H - js[i]]
Swap(js, i, k) == [js EXCEPT ![i] = js[k], ![k] = js[i]]
=============================================================================
