CONSTANTS
  T <- MC_T
  MaxDist <- MC_MaxDist
  Rad2 <- MC_Rad2
  Lvs <- MC_Lvs
  Bias <- MC_Bias
  Seeded <- MC_Seeded
  TSet <- MC_TSet
  MaxCalls <- MC_MaxCalls
  Worlds <- MC_Worlds
  Problems <- MC_Problems
  ValidateRoots <- MC_ValidateRoots
  RestoreRng <- MC_RestoreRng
  RewireStrict <- MC_RewireStrict
SPECIFICATION Spec
VIEW view
CHECK_DEADLOCK FALSE
INVARIANTS
  W_NoRewire
  W_ParentIsNearest
  W_NoOk
