------------------------------- MODULE Motion -------------------------------
(***************************************************************************)
(* The motion check.                                                       *)
(*                                                                         *)
(* Two things are kept apart on purpose:                                   *)
(*  - QueryPoints / CheckMotion : what the code does (the discretisation   *)
(*    n = ceil(d / (0.1*lvs)), queries interpolate(from,to,i/n) for        *)
(*    i = 1..n, `from` is never asked, stop at the first rejection;        *)
(*    n <= 1 asks `to` only).  On a lattice interpolate(a,b,t) is the      *)
(*    point min(ceil(d*t), d-1) units along the geodesic for t < 1 and the  *)
(*    far endpoint for t = 1 only.                                         *)
(*  - Covers : what property C03 demands of ANY implementation: the        *)
(*    accepted queries lie along the whole segment, the far endpoint       *)
(*    included, with no gap longer than the longest-valid-segment length.  *)
(* The model-checking configurations check that the first implies the      *)
(* second; the trace monitors demand only the second.                      *)
(***************************************************************************)
EXTENDS Metric

\* number of interpolation steps the code computes (Lvs >= 1 integer, lattice units)
NumSteps(d, Lvs) == CeilDiv(10 * d, Lvs)

\* the sequence of lattice points the code would ask about if every answer were "valid"
QueryPoints(T, a, b, Lvs) ==
  LET d == D(T, a, b)
      n == NumSteps(d, Lvs)
  IN IF n <= 1 THEN <<b>>
     ELSE [i \in 1 .. n |-> Geo(T, a, b, IF i = n THEN d ELSE Min2(CeilDiv(d * i, n), d - 1))]

\* result of the code's motion check against a validity set:
\*   ok    - TRUE iff every query was accepted
\*   asked - the queries actually issued (up to and including the first rejection)
CheckMotion(T, Valid, a, b, Lvs) ==
  LET qs  == QueryPoints(T, a, b, Lvs)
      bad == {i \in 1 .. Len(qs) : qs[i] \notin Valid}
  IN IF bad = {} THEN [ok |-> TRUE, asked |-> qs]
     ELSE LET f == CHOOSE i \in bad : \A j \in bad : i <= j
          IN [ok |-> FALSE, asked |-> SubSeq(qs, 1, f)]

SeqRange(s) == {s[i] : i \in 1 .. Len(s)}
AcceptedOf(Valid, asked) == {p \in SeqRange(asked) : p \in Valid}

(***************************************************************************)
(* Property-level coverage on a lattice: Acc is the set of points the      *)
(* checker has been asked about and accepted.                              *)
(***************************************************************************)
CoversLat(T, Acc, a, b, L) ==
  LET d == D(T, a, b)
      P == {k \in 1 .. d : Geo(T, a, b, k) \in Acc}
  IN /\ b \in Acc
     /\ \A k \in 0 .. (d - 1) : \E j \in P : k < j /\ j <= k + L

(***************************************************************************)
(* The same predicate on logged positions (trace monitors): cov is the     *)
(* ascending sequence of positions (in length units) of accepted queries   *)
(* on the segment, len its length, L the allowed gap.                      *)
(***************************************************************************)
CoversPos(cov, len, L, tol) ==
  /\ Len(cov) >= 1
  /\ cov[Len(cov)] >= len - tol
  /\ cov[1] <= L + tol
  /\ \A i \in 1 .. (Len(cov) - 1) : cov[i + 1] - cov[i] <= L + tol

(***************************************************************************)
(* Independent three-valued motion oracle on a lattice (what is knowable   *)
(* about a segment at the property's resolution L, whatever discretisation *)
(* an implementation uses):                                                *)
(*   "free"    every lattice point of the segment after `a` is valid       *)
(*   "blocked" the far endpoint is invalid, or L consecutive points are    *)
(*   "unknown" otherwise                                                   *)
(***************************************************************************)
Oracle(T, Valid, a, b, L) ==
  LET d == D(T, a, b)
      pts == [k \in 1 .. d |-> Geo(T, a, b, k)]
  IN IF \A k \in 1 .. d : pts[k] \in Valid THEN IF b \in Valid THEN "free" ELSE "blocked"
     ELSE IF b \notin Valid THEN "blocked"
     ELSE IF \E k \in 1 .. d : k + L - 1 <= d /\ \A j \in k .. (k + L - 1) : pts[j] \notin Valid
          THEN "blocked" ELSE "unknown"
=============================================================================
