CONSTANTS
  T <- MC_T
  MaxDist <- MC_MaxDist
  Rad2 <- MC_Rad2
  Lvs <- MC_Lvs
  Bias <- MC_Bias
  Seeded <- MC_Seeded
  TSet <- MC_TSet
  MaxCalls <- MC_MaxCalls
  WorldPairs <- MC_WorldPairs
  SetupChoices <- MC_SetupChoices
  Problems <- MC_Problems
  Region <- MC_Region
  ValidateRoots <- MC_ValidateRoots
  RestoreRng <- MC_RestoreRng
  RewireStrict <- MC_RewireStrict
  NearFirst <- MC_NearFirst
SPECIFICATION Spec
VIEW view
CHECK_DEADLOCK FALSE
ACTION_CONSTRAINT Emit
INVARIANTS
  C01_NodesValid
  C01_PathValid
  C02_Endpoints
  C03_LinksCovered
  C03_PathFollowsLinks
  C04_InRegion
  C05_Step
  C06_OkImpliesReachable
  C07_Provenance
  C08_Uninit
  C15_WellFormed
  C15_CostMono
  C17_CostUpper
  C17_LastStep
  C17_VsRRT
