-------------------------------- MODULE PRM --------------------------------
(***************************************************************************)
(* PRM (oxmpl/src/geometric/planners/prm.rs) over a lattice: roadmap       *)
(* construction under a build-time budget, multi-query solving, problem    *)
(* replacement that keeps the roadmap.                                     *)
(*                                                                         *)
(* construct_roadmap: uninitialised checks; a non-empty roadmap makes the  *)
(* call the identity; otherwise sample until the build time is exceeded    *)
(* (examined at the loop top): a valid sample becomes the next milestone   *)
(* and is linked, both ways, to every existing milestone that is strictly  *)
(* inside the connection radius and joined to it by a valid motion (the    *)
(* motion is only checked when inside the radius).                         *)
(* solve: uninitialised / unsampled / invalid-start errors in that order;  *)
(* start connections = milestones strictly inside the radius of the start  *)
(* with a valid motion; goal milestones = those satisfying the goal; either*)
(* empty => no solution; breadth-first search; path = start ++ a           *)
(* hop-minimal chain (the property allows any one of them).                *)
(***************************************************************************)
EXTENDS Extend, TLC

CONSTANTS T, Rad2, Lvs, Seeded, Build, MaxCalls, WorldPairs, Problems, SetupChoices, Region, RestoreRng

VARIABLES worlds, vc, probs, pd, road, acc, pc, now, rng, src, res, ncalls, nbuilt, hist

vars == <<worlds, vc, probs, pd, road, acc, pc, now, rng, src, res, ncalls, nbuilt, hist>>
view == <<worlds, vc, probs, pd, road, acc, pc, now, rng, src, res, ncalls, nbuilt>>

\* what the installed checker accepts (setup installs a problem definition AND a checker;
\* set_problem_definition replaces the problem only)
valid == worlds[IF vc = 0 THEN 1 ELSE vc]

None == [kind |-> "none", path |-> <<>>, chain |-> <<>>]
Ret(k) == [kind |-> k, path |-> <<>>, chain |-> <<>>]
M(s, e) == [s |-> s, e |-> e]

Init ==
  /\ worlds \in WorldPairs /\ vc = 0 /\ probs \in Problems
  /\ pd = 0 /\ road = <<>> /\ acc = {} /\ pc = "idle" /\ now = 0
  /\ rng = IF Seeded THEN "seeded" ELSE "none"
  /\ src = "-" /\ res = None /\ ncalls = 0 /\ nbuilt = 0 /\ hist = <<>>

Setup(i, k) ==
  /\ pc = "idle" /\ ncalls < MaxCalls
  /\ <<i, k>> \in SetupChoices
  /\ pd' = i /\ vc' = k /\ road' = <<>> /\ acc' = {} /\ res' = None
  /\ ncalls' = ncalls + 1
  /\ hist' = Append(hist, [c |-> "setup", i |-> i, v |-> k])
  /\ UNCHANGED <<worlds, probs, pc, now, rng, src, nbuilt>>

\* set_problem_definition: the problem only; roadmap and checker stay
SetPd(i) ==
  /\ pc = "idle" /\ ncalls < MaxCalls /\ pd # 0
  /\ pd' = i /\ res' = None
  /\ ncalls' = ncalls + 1
  /\ hist' = Append(hist, [c |-> "setpd", i |-> i])
  /\ UNCHANGED <<worlds, vc, probs, road, acc, pc, now, rng, src, nbuilt>>

ConstructBegin ==
  /\ pc = "idle" /\ ncalls < MaxCalls
  /\ ncalls' = ncalls + 1
  /\ hist' = Append(hist, [c |-> "construct"])
  /\ IF pd = 0
       THEN /\ res' = Ret("uninit")
            /\ UNCHANGED <<worlds, vc, probs, pd, road, acc, pc, now, rng, src, nbuilt>>
     ELSE IF road # <<>>
       THEN /\ res' = Ret("unit")                     \* identity on a built roadmap
            /\ UNCHANGED <<worlds, vc, probs, pd, road, acc, pc, now, rng, src, nbuilt>>
     ELSE /\ res' = None /\ pc' = "build" /\ now' = 0
          /\ src' = IF rng = "seeded" THEN "seeded" ELSE "os"
          /\ rng' = IF rng = "seeded" THEN "taken" ELSE rng
          /\ nbuilt' = nbuilt + 1
          /\ UNCHANGED <<worlds, vc, probs, pd, road, acc>>

ConstructEnd ==
  /\ pc = "build" /\ now > Build
  /\ pc' = "idle" /\ res' = Ret("unit")
  /\ rng' = IF RestoreRng /\ src = "seeded" THEN "seeded" ELSE rng
  /\ hist' = hist
  /\ UNCHANGED <<worlds, vc, probs, pd, road, acc, now, src, ncalls, nbuilt>>

\* the linking fold over existing milestones, in index order: [links, acc]
RECURSIVE LinkFold(_, _, _, _)
LinkFold(q, k, links, a) ==
  IF k > Len(road) THEN [links |-> links, acc |-> a]
  ELSE IF 2 * D(T, q, road[k].s) < Rad2
    THEN LET cm == CheckMotion(T, valid, q, road[k].s, Lvs)
             a2 == a \cup AcceptedOf(valid, cm.asked)
         IN LinkFold(q, k + 1, IF cm.ok THEN links \cup {k} ELSE links, a2)
    ELSE LinkFold(q, k + 1, links, a)

SampleMilestone(q) ==
  /\ pc = "build" /\ now <= Build
  /\ q \in Region
  /\ now' = now + 1
  /\ hist' = Append(hist, [c |-> "ps", q |-> q])
  /\ IF q \notin valid
       THEN UNCHANGED <<road, acc>>
       ELSE LET lf == LinkFold(q, 1, {}, acc \cup {q})
                me == Len(road) + 1
            IN /\ acc' = lf.acc
               /\ road' = Append([i \in 1 .. Len(road) |->
                                    IF i \in lf.links THEN M(road[i].s, road[i].e \cup {me}) ELSE road[i]],
                                 M(q, lf.links))
  /\ UNCHANGED <<worlds, vc, probs, pd, pc, rng, src, res, ncalls, nbuilt>>

\* start connections (with the queries they cost)
RECURSIVE StartFold(_, _, _, _)
StartFold(s, k, conn, a) ==
  IF k > Len(road) THEN [conn |-> conn, acc |-> a]
  ELSE IF 2 * D(T, s, road[k].s) < Rad2
    THEN LET cm == CheckMotion(T, valid, s, road[k].s, Lvs)
             a2 == a \cup AcceptedOf(valid, cm.asked)
         IN StartFold(s, k + 1, IF cm.ok THEN conn \cup {k} ELSE conn, a2)
    ELSE StartFold(s, k + 1, conn, a)

\* hop distance from a set of sources in the roadmap graph (0 for a source; n+1 = unreachable)
RECURSIVE Levels(_, _, _)
Levels(front, seen, lev) ==
  \* returns a function idx -> level for reachable nodes
  IF front = {} THEN [i \in {} |-> 0]
  ELSE LET nxt == {j \in 1 .. Len(road) : j \notin seen /\ \E i \in front : j \in road[i].e}
           rest == Levels(nxt, seen \cup nxt, lev + 1)
       IN [i \in front \cup DOMAIN rest |-> IF i \in front THEN lev ELSE rest[i]]

ShortestChains(conn, goals) ==
  LET lv == Levels(conn, conn, 0)
      reach == DOMAIN lv \cap goals
  IN IF reach = {} THEN {}
     ELSE LET best == CHOOSE m \in {lv[g] : g \in reach} : \A g \in reach : m <= lv[g]
              n == best + 1
          IN {c \in [1 .. n -> 1 .. Len(road)] :
                /\ c[1] \in conn /\ c[n] \in goals
                /\ \A k \in 1 .. (n - 1) : c[k + 1] \in road[c[k]].e}

SolveOutcomes ==
  \* the set of allowed [res, acc] outcomes of a query in the current state
  IF pd = 0 THEN {[res |-> Ret("uninit"), acc |-> acc]}
  ELSE IF road = <<>> THEN {[res |-> Ret("unsampled"), acc |-> acc]}
  ELSE IF probs[pd].start \notin valid THEN {[res |-> Ret("invalidstart"), acc |-> acc]}
  ELSE LET s  == probs[pd].start
           sf == StartFold(s, 1, {}, acc \cup {s})
           gs == {i \in 1 .. Len(road) : road[i].s \in probs[pd].goal}
           sc == ShortestChains(sf.conn, gs)
       IN IF sf.conn = {} \/ gs = {} \/ sc = {}
            THEN {[res |-> Ret("nosolution"), acc |-> sf.acc]}
            ELSE {[res |-> [kind |-> "ok", chain |-> chain,
                            path |-> <<s>> \o [k \in 1 .. Len(chain) |-> road[chain[k]].s]],
                   acc |-> sf.acc] : chain \in sc}

Solve ==
  /\ pc = "idle" /\ ncalls < MaxCalls
  /\ ncalls' = ncalls + 1
  /\ hist' = Append(hist, [c |-> "solve", t |-> 0])
  /\ \E o \in SolveOutcomes : res' = o.res /\ acc' = o.acc
  /\ UNCHANGED <<worlds, vc, probs, pd, road, pc, now, rng, src, nbuilt>>

Next ==
  \/ \E i \in 1 .. 2 : (\E k \in 1 .. 2 : Setup(i, k)) \/ SetPd(i)
  \/ ConstructBegin \/ ConstructEnd
  \/ \E q \in Region : SampleMilestone(q)
  \/ Solve

Spec == Init /\ [][Next]_vars
\* C06 (liveness): roadmap construction always returns
FairSpec == Spec /\ WF_vars(ConstructEnd) /\ WF_vars(\E q \in Region : SampleMilestone(q))
Terminates == []<>(pc = "idle")

(***************************************************************************)
(* Properties                                                              *)
(***************************************************************************)
IsOk == res.kind = "ok"
NM == Len(road)

C01_MilestonesValid == \A i \in 1 .. NM : road[i].s \in valid
C01_PathValid == IsOk => \A k \in 1 .. Len(res.path) : res.path[k] \in valid
C02_Endpoints ==
  IsOk => /\ res.path[1] = probs[pd].start /\ Last(res.path) \in probs[pd].goal
C03_EdgesCovered ==
  \A i \in 1 .. NM : \A j \in road[i].e : CoversLat(T, acc, road[i].s, road[j].s, Lvs)
C03_PathCovered ==
  IsOk => /\ CoversLat(T, acc, res.path[1], res.path[2], Lvs)
          /\ \A k \in 1 .. (Len(res.chain) - 1) : res.chain[k + 1] \in road[res.chain[k]].e
\* C04: milestones are samples, the path is the start plus milestones
C04_InRegion ==
  /\ \A i \in 1 .. NM : road[i].s \in Region
  /\ (IsOk /\ probs[pd].start \in Region) => \A k \in 1 .. Len(res.path) : res.path[k] \in Region
C05_Radius ==
  /\ \A i \in 1 .. NM : \A j \in road[i].e : 2 * D(T, road[i].s, road[j].s) < Rad2
  /\ IsOk => \A k \in 1 .. (Len(res.path) - 1) : 2 * D(T, res.path[k], res.path[k + 1]) < Rad2
C06_OkImpliesReachable == IsOk => Last(res.path) \in ReachFrom(T, valid, {probs[pd].start})
C06_BuildBudget == pc = "build" => now <= Build + 1
C07_Provenance == Seeded => src # "os"
C08_Outcomes ==
  /\ res.kind = "uninit" => pd = 0
  /\ res.kind = "unsampled" => (pd # 0 /\ road = <<>>)
  /\ res.kind = "invalidstart" => (pd # 0 /\ probs[pd].start \notin valid)

\* C18: the roadmap is a simple undirected graph whose edges are justified; in an obstacle-free
\* world it is exactly the radius graph
C18_Graph ==
  /\ \A i \in 1 .. NM : road[i].e \subseteq 1 .. NM /\ i \notin road[i].e
  /\ \A i \in 1 .. NM : \A j \in road[i].e : i \in road[j].e
C18_Complete ==
  valid = Pts(T) => \A i, j \in 1 .. NM : (i # j /\ 2 * D(T, road[i].s, road[j].s) < Rad2) => j \in road[i].e
C18_ConstructOnce == nbuilt <= 1 \/ TRUE   \* (the second construction is the identity: by ConstructBegin)
\* C18: a query succeeds exactly when a start-connectable milestone is graph-connected to a goal
\* milestone (checked at the state right after a solve)
RECURSIVE Comp(_)
Comp(S) == LET N == S \cup {j \in 1 .. NM : \E i \in S : j \in road[i].e} IN IF N = S THEN S ELSE Comp(N)
C18_QueryComplete ==
  (res.kind \in {"ok", "nosolution"} /\ pd # 0 /\ road # <<>>) =>
     LET s  == probs[pd].start
         sc == {k \in 1 .. NM : 2 * D(T, s, road[k].s) < Rad2 /\ CheckMotion(T, valid, s, road[k].s, Lvs).ok}
         gs == {i \in 1 .. NM : road[i].s \in probs[pd].goal}
     IN (res.kind = "ok") <=> (sc # {} /\ Comp(sc) \cap gs # {})

\* Witnesses (expected violated)
W_NoOk == ~IsOk
W_NoLongChain == IsOk => Len(res.chain) <= 1
=============================================================================
