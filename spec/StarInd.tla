------------------------------ MODULE StarInd ------------------------------
(***************************************************************************)
(* The RRT* link / rewire rules over an ARBITRARY non-negative integer     *)
(* "metric" (no symmetry or triangle inequality assumed) and arbitrary     *)
(* recorded costs, for up to K nodes - typed for Apalache.  The inductive  *)
(* invariant IndInv (parents live, cost[i] >= cost[parent[i]] + d, every   *)
(* node reaches the root within K steps) is discharged symbolically:       *)
(*                                                                         *)
(*   apalache-mc check --init=Init    --inv=IndInv --length=0 StarInd.tla  *)
(*   apalache-mc check --init=IndInit --inv=IndInv --length=1 StarInd.tla  *)
(*                                                                         *)
(* Rewiring is generalised to ANY pair (x, y) with                         *)
(*        cost[y] + d[y, x] < cost[x]        (strict)                       *)
(* which covers the code's rewiring (y the new node, x a neighbour) and    *)
(* makes no use of geometry.  This is the only argument here that is       *)
(* unbounded in the metric and the costs (it is still bounded in the       *)
(* number of nodes); TraceMonitor's C17/rewire-set is what ties the code's *)
(* guard to the rule proved here.  With Strict = FALSE (<=) Apalache       *)
(* returns a zero-length-edge cycle as counterexample.                     *)
(***************************************************************************)
EXTENDS Integers

CONSTANTS
  \* @type: Int;
  K,
  \* @type: Bool;
  Strict

VARIABLES
  \* @type: Int -> Int;
  par,
  \* @type: Int -> Int;
  cost,
  \* @type: Int;
  n,
  \* @type: <<Int, Int>> -> Int;
  d

Nodes == 1 .. K
Live == {i \in Nodes : i <= n}

ConstInitStrict == K = 5 /\ Strict = TRUE
ConstInitLoose == K = 5 /\ Strict = FALSE

\* k-fold parent (0 once the root has been passed)
Up(i) == IF i = 0 THEN 0 ELSE par[i]
Up5(i) == Up(Up(Up(Up(Up(i)))))

TypeOK ==
  /\ n \in Nodes
  /\ par \in [Nodes -> 0 .. K]
  /\ cost \in [Nodes -> Int]
  /\ d \in [Nodes \X Nodes -> Int]

IndInv ==
  /\ TypeOK
  /\ \A p \in Nodes \X Nodes : d[p] >= 0
  /\ par[1] = 0 /\ cost[1] = 0
  /\ \A i \in Live : i # 1 =>
        /\ par[i] \in Live /\ par[i] # i
        /\ cost[i] >= cost[par[i]] + d[<<par[i], i>>]
  /\ \A i \in Live : cost[i] >= 0
  /\ \A i \in Live : Up5(i) = 0                         \* acyclic: the root is reached

Init ==
  /\ n = 1
  /\ par = [i \in Nodes |-> 0]
  /\ cost = [i \in Nodes |-> 0]
  /\ d \in [Nodes \X Nodes -> Int]
  /\ \A p \in Nodes \X Nodes : d[p] >= 0

IndInit == IndInv

\* a new node is hung under any live node with the recorded cost of the link
Link(p) ==
  /\ n < K /\ p \in Live
  /\ n' = n + 1
  /\ par' = [par EXCEPT ![n + 1] = p]
  /\ cost' = [cost EXCEPT ![n + 1] = cost[p] + d[<<p, n + 1>>]]
  /\ UNCHANGED d

\* x is re-parented to y when that is cheaper
Rewire(x, y) ==
  /\ x \in Live /\ y \in Live /\ x # y /\ x # 1
  /\ IF Strict THEN cost[y] + d[<<y, x>>] < cost[x] ELSE cost[y] + d[<<y, x>>] <= cost[x]
  /\ par' = [par EXCEPT ![x] = y]
  /\ cost' = [cost EXCEPT ![x] = cost[y] + d[<<y, x>>]]
  /\ UNCHANGED <<n, d>>

Next ==
  \/ \E p \in Nodes : Link(p)
  \/ \E x, y \in Nodes : Rewire(x, y)
  \/ UNCHANGED <<par, cost, n, d>>
=============================================================================
