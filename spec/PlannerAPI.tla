----------------------------- MODULE PlannerAPI -----------------------------
(***************************************************************************)
(* The call-history layer shared by the four planners (C08), abstracting   *)
(* from geometry: which public calls may be made in which order, what each *)
(* must answer, and where faults may strike.                               *)
(*                                                                         *)
(*   calls : new (implicit), setup(problem P1|P2, checker V1|V2),          *)
(*           set_problem_definition(P1|P2) and construct_roadmap (PRM      *)
(*           only), solve (with a time limit that lasts, or one that runs  *)
(*           out during the call), assignment of the planner's public      *)
(*           parameter fields (step, goal bias, radius)                    *)
(*   faults: the uniform / goal sampler fails at its k-th call; goal bias  *)
(*           outside [0,1] (negative, > 1, NaN); an empty start list       *)
(*                                                                         *)
(* setup installs a problem definition AND a validity checker; the same    *)
(* problem object may be re-installed with a different checker and the     *)
(* same checker object with a different problem (object identity is what a *)
(* cache inside a planner would key on).  set_problem_definition replaces  *)
(* the problem only.                                                       *)
(*                                                                         *)
(* The required answer of every call (Allowed) is what the trace monitor   *)
(* enforces on the real planners (labels C08/outcome, C08/panic@site,      *)
(* C08/latest-problem): in particular NEVER a panic.  TLC enumerates every *)
(* call sequence up to MaxCalls for every fault; each one is executed on   *)
(* the real planner (harness: latreplay) and validated.                    *)
(*                                                                         *)
(* Shape = "any": every call sequence.  Shape = "twophase": the multi-     *)
(* query usage pattern  install, [build], query+, re-install (setup or     *)
(* set_problem_definition), [build], query+  - long histories (up to 8     *)
(* calls) at a cost that stays linear, for defects that need a first       *)
(* answer (or a first failure) before a second installation.               *)
(***************************************************************************)
EXTENDS Integers, Sequences, FiniteSets, TLC

CONSTANTS Planner,     \* "rrt" | "rrtstar" | "rrtc" | "prm"
          MaxCalls,
          Faults,      \* set of fault records [f |-> kind, k |-> position]
          StartValid,  \* StartValid[v][p]: is the start of problem p valid under checker v (replay world)
          SetupChoices,\* set of <<p, v>> pairs a history may pass to setup
          Shape        \* "any" | "twophase"

VARIABLES pd,       \* installed problem 0/1/2
          vc,       \* installed checker 0/1/2
          inited,   \* setup has been called (problem AND checker installed); set_problem_definition
                    \* alone does not initialise a planner
          built,    \* PRM: roadmap non-empty
          phase,    \* position in the two-phase usage pattern (Shape = "twophase")
          tuned,    \* one of the rarer calls (parameter re-assignment, a solve whose time limit runs out
                    \* during the call) has been made: at most one per history keeps the enumeration small
          fault, res, ncalls, hist

vars == <<pd, vc, inited, built, phase, tuned, fault, res, ncalls, hist>>
IsPrm == Planner = "prm"

Init ==
  /\ pd = 0 /\ vc = 0 /\ inited = FALSE /\ built = FALSE /\ phase = 0 /\ tuned = FALSE
  /\ fault \in Faults /\ res = "none" /\ ncalls = 0 /\ hist = <<>>

\* answers a conforming planner may give to solve in the current state
AllowedSolve ==
  IF ~inited THEN {"uninit"}
  ELSE IF IsPrm /\ ~built THEN {"unsampled"}
  ELSE IF ~StartValid[vc][pd] THEN {"invalidstart"}
  ELSE {"ok", "timeout", "nosolution", "error"}      \* "error": a reported sampler/parameter fault

AllowedConstruct == IF ~inited THEN {"uninit"} ELSE {"unit", "error"}

(***************************************************************************)
(* The two-phase pattern as an automaton over `phase`:                     *)
(*   0 -setup-> 1 -[construct]-> 2 -solve-> 3 -solve-> 3                   *)
(*   3 -setup|setpd-> 4 -[construct]-> 5 -solve-> 6 -solve-> 6             *)
(* (construct is skipped by the tree planners; PRM may skip the second one *)
(* - after set_problem_definition the roadmap is reused; setparams may     *)
(* come right after the first setup or between the phases; at most one     *)
(* setparams or short solve per history)                                   *)
(***************************************************************************)
PhaseOk(name) ==
  Shape # "twophase" \/
  CASE name = "setup"     -> phase \in {0, 3}
    [] name = "setpd"     -> phase = 3
    [] name = "construct" -> phase \in {1, 4}
    [] name = "setparams" -> phase \in {1, 3}
    [] name = "solve"     -> phase \in {1, 2, 3, 4, 5, 6} /\ (IsPrm => phase # 1)
    [] OTHER -> FALSE
PhaseNext(name) ==
  IF Shape # "twophase" THEN phase
  ELSE CASE name = "setup"     -> IF phase = 0 THEN 1 ELSE 4
         [] name = "setpd"     -> 4
         [] name = "construct" -> phase + 1
         [] name = "solve"     -> IF phase <= 3 THEN 3 ELSE 6
         [] OTHER -> phase

Call(name, arg, v, allowed) ==
  /\ ncalls < MaxCalls
  /\ PhaseOk(name)
  /\ phase' = PhaseNext(name)
  /\ ncalls' = ncalls + 1
  /\ res' \in allowed
  /\ hist' = Append(hist, [c |-> name, i |-> arg, v |-> v])

Setup(i, k) ==
  /\ <<i, k>> \in SetupChoices
  /\ Call("setup", i, k, {"unit"})
  /\ pd' = i /\ vc' = k /\ inited' = TRUE /\ built' = FALSE /\ UNCHANGED <<fault, tuned>>

SetPd(i) ==
  /\ IsPrm /\ Call("setpd", i, 0, {"unit"})
  /\ pd' = i /\ UNCHANGED <<vc, inited, built, fault, tuned>>

Construct ==
  /\ IsPrm /\ Call("construct", 0, 0, AllowedConstruct)
  \* whether milestones were found is up to the sampler: either outcome is explored
  /\ built' \in (IF ~inited THEN {built} ELSE IF built THEN {TRUE} ELSE {TRUE, FALSE})
  /\ UNCHANGED <<pd, vc, inited, fault, tuned>>

\* short = TRUE: the time limit runs out during the call (the answer may then be "timeout" whatever
\* the roadmap or tree holds - AllowedSolve already admits it)
Solve(short) ==
  /\ Call("solve", IF short THEN 1 ELSE 0, 0, AllowedSolve)
  /\ (short => (Shape = "twophase" /\ ~tuned))
  /\ tuned' = (tuned \/ short)
  /\ UNCHANGED <<pd, vc, inited, built, fault>>

\* the caller assigns the planner's public parameter fields; whatever the planner did with the old
\* values, every later call must act on the new ones
SetParams ==
  /\ Shape = "twophase" /\ ~tuned
  /\ Call("setparams", 0, 0, {"unit"})
  /\ tuned' = TRUE
  /\ UNCHANGED <<pd, vc, inited, built, fault>>

Next == (\E i \in 1 .. 2 : (\E k \in 1 .. 2 : Setup(i, k)) \/ SetPd(i)) \/ Construct \/ (\E s \in BOOLEAN : Solve(s)) \/ SetParams
Spec == Init /\ [][Next]_vars

\* C08 at the design level: no call ever "panics", solving before setup says so, a query before
\* construction says so
NeverPanics == res # "panic"
UninitExact == (res = "uninit") => ~inited
UnsampledExact == (res = "unsampled") => (IsPrm /\ ~built /\ inited)
\* an installed checker is always one that setup was given
CheckerInstalled == inited <=> vc # 0
=============================================================================
