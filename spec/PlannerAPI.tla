----------------------------- MODULE PlannerAPI -----------------------------
(***************************************************************************)
(* The call-history layer shared by the four planners (C08), abstracting   *)
(* from geometry: which public calls may be made in which order, what each *)
(* must answer, and where faults may strike.                               *)
(*                                                                         *)
(*   calls : new (implicit), setup(P1|P2), set_problem_definition(P1|P2)   *)
(*           and construct_roadmap (PRM only), solve                       *)
(*   faults: the uniform / goal sampler fails at its k-th call; goal bias  *)
(*           outside [0,1] (negative, > 1, NaN); an empty start list       *)
(*                                                                         *)
(* The required answer of every call (Allowed) is what the trace monitor   *)
(* enforces on the real planners (labels C08/outcome, C08/panic@site,      *)
(* C08/latest-problem): in particular NEVER a panic.  TLC enumerates every *)
(* call sequence up to MaxCalls for every fault; each one is executed on   *)
(* the real planner (harness: latreplay) and validated.                    *)
(***************************************************************************)
EXTENDS Integers, Sequences, FiniteSets, TLC

CONSTANTS Planner,     \* "rrt" | "rrtstar" | "rrtc" | "prm"
          MaxCalls,
          Faults,      \* set of fault records [f |-> kind, k |-> position]
          StartValid   \* <<BOOLEAN, BOOLEAN>>: is the start of P1 / P2 valid in the replay world

VARIABLES pd,       \* installed problem 0/1/2
          inited,   \* setup has been called (problem AND checker installed); set_problem_definition
                    \* alone does not initialise a planner
          built,    \* PRM: roadmap non-empty
          fault, res, ncalls, hist

vars == <<pd, inited, built, fault, res, ncalls, hist>>
IsPrm == Planner = "prm"

Init ==
  /\ pd = 0 /\ inited = FALSE /\ built = FALSE /\ fault \in Faults /\ res = "none" /\ ncalls = 0 /\ hist = <<>>

\* answers a conforming planner may give to solve in the current state
AllowedSolve ==
  IF ~inited THEN {"uninit"}
  ELSE IF IsPrm /\ ~built THEN {"unsampled"}
  ELSE IF ~StartValid[pd] THEN {"invalidstart"}
  ELSE {"ok", "timeout", "nosolution", "error"}      \* "error": a reported sampler/parameter fault

AllowedConstruct == IF ~inited THEN {"uninit"} ELSE {"unit", "error"}

Call(name, arg, allowed) ==
  /\ ncalls < MaxCalls
  /\ ncalls' = ncalls + 1
  /\ res' \in allowed
  /\ hist' = Append(hist, [c |-> name, i |-> arg])

Setup(i) ==
  /\ Call("setup", i, {"unit"})
  /\ pd' = i /\ inited' = TRUE /\ built' = FALSE /\ UNCHANGED fault

SetPd(i) ==
  /\ IsPrm /\ Call("setpd", i, {"unit"})
  /\ pd' = i /\ UNCHANGED <<inited, built, fault>>

Construct ==
  /\ IsPrm /\ Call("construct", 0, AllowedConstruct)
  \* whether milestones were found is up to the sampler: either outcome is explored
  /\ built' \in (IF ~inited THEN {built} ELSE IF built THEN {TRUE} ELSE {TRUE, FALSE})
  /\ UNCHANGED <<pd, inited, fault>>

Solve ==
  /\ Call("solve", 0, AllowedSolve)
  /\ UNCHANGED <<pd, inited, built, fault>>

Next == (\E i \in 1 .. 2 : Setup(i) \/ SetPd(i)) \/ Construct \/ Solve
Spec == Init /\ [][Next]_vars

\* C08 at the design level: no call ever "panics", solving before setup says so, a query before
\* construction says so
NeverPanics == res # "panic"
UninitExact == (res = "uninit") => ~inited
UnsampledExact == (res = "unsampled") => (IsPrm /\ ~built /\ inited)
=============================================================================
