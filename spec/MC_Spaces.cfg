INIT Init
NEXT Next
