--------------------------- MODULE MC_PlannerAPI ---------------------------
EXTENDS PlannerAPI, Json, IOUtils

EnvOr(name, default) == IF name \in DOMAIN IOEnv THEN IOEnv[name] ELSE default
EnvInt(name, default) == IF name \in DOMAIN IOEnv THEN atoi(IOEnv[name]) ELSE default

MC_Planner == EnvOr("V_PLANNER", "rrt")
MC_MaxCalls == EnvInt("V_MAXCALLS", 4)
MC_Shape == EnvOr("V_SHAPE", "any")
MaxK == EnvInt("V_MAXK", 3)
\* "bias" k: 1 = -0.1, 2 = 1.5, 3 = NaN
MC_Faults ==
  IF EnvOr("V_FAULTS", "all") = "none" THEN {[f |-> "none", k |-> 0]}
  ELSE {[f |-> "none", k |-> 0], [f |-> "nostart", k |-> 0]}
       \cup {[f |-> "ufail", k |-> k] : k \in 1 .. MaxK}
       \cup {[f |-> "gfail", k |-> k] : k \in 1 .. MaxK}
       \cup (IF MC_Planner = "prm" THEN {} ELSE {[f |-> "bias", k |-> k] : k \in 1 .. 3})

(***************************************************************************)
(* The replay worlds.                                                      *)
(*  line5   (default) line of 5 points, point 4 invalid; P1 = 0 -> {3};    *)
(*          P2 starts on the invalid point.  V_VALIDALL=1: every point     *)
(*          valid (both problems solvable) - long histories of well-formed *)
(*          use.  Both checkers answer alike (two objects, one function).  *)
(*  pocket7 line of 7 points; checker V1 accepts everything, checker V2    *)
(*          rejects point 4 (a wall that seals off {5, 6}); P1 = 0 -> {3}  *)
(*          (solvable under both), P2 = 2 -> {6} (solvable under V1 only;  *)
(*          its start connections lie on P1's route;                       *)
(*          under V2 start connections and goal milestones exist but in    *)
(*          different components); connection radius 1.5, so P1 needs a    *)
(*          multi-hop roadmap path.                                        *)
(***************************************************************************)
ApiWorld == EnvOr("V_APIWORLD", "line5")
Pocket == ApiWorld = "pocket7"
ValidAll == EnvOr("V_VALIDALL", "0") = "1"
NPts == IF Pocket THEN 7 ELSE 5
AllPts == 0 .. (NPts - 1)
W1 == IF Pocket \/ ValidAll THEN AllPts ELSE AllPts \ {4}
W2 == IF Pocket THEN AllPts \ {4} ELSE W1
MC_Worlds == <<W1, W2>>
MC_Probs == IF Pocket THEN << [start |-> 0, goal |-> {3}], [start |-> 2, goal |-> {6}] >>
                      ELSE << [start |-> 0, goal |-> {3}], [start |-> 4, goal |-> {0}] >>
MC_StartValid == [v \in 1 .. 2 |-> [p \in 1 .. 2 |-> MC_Probs[p].start \in MC_Worlds[v]]]
\* "own": problem i always comes with checker object i; "free": any combination
MC_SetupChoices == IF EnvOr("V_CHECKERS", "own") = "free" THEN (1 .. 2) \X (1 .. 2) ELSE {<<1, 1>>, <<2, 2>>}

Emit ==
  (EnvOr("V_EMIT", "0") = "1") =>
     PrintT(<<"HIST", ToJson([planner |-> MC_Planner,
                             topo |-> [kind |-> "line", n |-> NPts, w |-> NPts],
                             maxd |-> 2, rad2 |-> IF Pocket THEN 3 ELSE 5, lvs |-> 1,
                             bias |-> IF fault.f = "gfail" THEN "1" ELSE "p",
                             seeded |-> TRUE, worlds |-> MC_Worlds,
                             probs |-> MC_Probs,
                             build |-> IF Pocket THEN 16 ELSE 3, solve_t |-> IF Pocket THEN 8 ELSE 4,
                             autoscript |-> TRUE, fault |-> fault,
                             \* the parameter values a "setparams" call assigns (radius only ever raised for PRM:
                             \* C05 bounds roadmap links by the radius in force)
                             alt |-> [maxd |-> 2, rad2 |-> IF Pocket THEN 5 ELSE 7, bias |-> "1"],
                             calls |-> [i \in 1 .. Len(hist') |->
                                          IF hist'[i].c = "setup" THEN [c |-> "setup", i |-> hist'[i].i, v |-> hist'[i].v]
                                          ELSE IF hist'[i].c = "setpd" THEN [c |-> "setpd", i |-> hist'[i].i, v |-> 0]
                                          ELSE IF hist'[i].c = "solve" THEN [c |-> "solve", i |-> hist'[i].i, v |-> 0]
                                          ELSE [c |-> hist'[i].c, i |-> 0, v |-> 0]]])>>)
=============================================================================
