--------------------------- MODULE MC_PlannerAPI ---------------------------
EXTENDS PlannerAPI, Json, IOUtils

EnvOr(name, default) == IF name \in DOMAIN IOEnv THEN IOEnv[name] ELSE default
EnvInt(name, default) == IF name \in DOMAIN IOEnv THEN atoi(IOEnv[name]) ELSE default

MC_Planner == EnvOr("V_PLANNER", "rrt")
MC_MaxCalls == EnvInt("V_MAXCALLS", 4)
MaxK == EnvInt("V_MAXK", 3)
\* "bias" k: 1 = -0.1, 2 = 1.5, 3 = NaN
MC_Faults ==
  IF EnvOr("V_FAULTS", "all") = "none" THEN {[f |-> "none", k |-> 0]}
  ELSE {[f |-> "none", k |-> 0], [f |-> "nostart", k |-> 0]}
       \cup {[f |-> "ufail", k |-> k] : k \in 1 .. MaxK}
       \cup {[f |-> "gfail", k |-> k] : k \in 1 .. MaxK}
       \cup (IF MC_Planner = "prm" THEN {} ELSE {[f |-> "bias", k |-> k] : k \in 1 .. 3})
\* V_VALIDALL=1: every point valid (both problems solvable) - long histories of well-formed use
ValidAll == EnvOr("V_VALIDALL", "0") = "1"
MC_StartValid == IF ValidAll THEN <<TRUE, TRUE>> ELSE <<TRUE, FALSE>>

\* the replay world: line of 5 points, point 4 invalid; P1 = 0 -> {3}; P2 starts on the invalid point
Emit ==
  (EnvOr("V_EMIT", "0") = "1") =>
     PrintT(<<"HIST", ToJson([planner |-> MC_Planner,
                             topo |-> [kind |-> "line", n |-> 5, w |-> 5],
                             maxd |-> 2, rad2 |-> 5, lvs |-> 1,
                             bias |-> IF fault.f = "gfail" THEN "1" ELSE "p",
                             seeded |-> TRUE, valid |-> IF ValidAll THEN {0, 1, 2, 3, 4} ELSE {0, 1, 2, 3},
                             probs |-> << [start |-> 0, goal |-> {3}], [start |-> 4, goal |-> {0}] >>,
                             build |-> 3, solve_t |-> 4, autoscript |-> TRUE, fault |-> fault,
                             calls |-> [i \in 1 .. Len(hist') |->
                                          IF hist'[i].c \in {"setup", "setpd"} THEN [c |-> hist'[i].c, i |-> hist'[i].i]
                                          ELSE [c |-> hist'[i].c, i |-> 0]]])>>)
=============================================================================
