------------------------------- MODULE Metric -------------------------------
(***************************************************************************)
(* Finite geodesic metric spaces ("lattices") on which the planner         *)
(* specifications are model-checked and on which the real planners are     *)
(* replayed (harness/src/lattice.rs is the executable twin; its D / Geo    *)
(* tables are compared with the ones TLC prints from MC_Metric).           *)
(*                                                                         *)
(* A topology is a record  [kind, n, w]:                                   *)
(*   line : points 0..n-1,  D = |a-b|                                       *)
(*   ring : points 0..n-1,  D = min(|a-b|, n-|a-b|), antipodal ties resolved*)
(*          "upwards from the smaller index"                               *)
(*   grid : w columns, n points (n = w*h), point = y*w+x, L1 metric,        *)
(*          canonical geodesic = x first, then y, of the ordered pair      *)
(* Geo(T,a,b,k) is the point k units from a on the canonical shortest path *)
(* between a and b; it is direction-symmetric by construction.             *)
(***************************************************************************)
EXTENDS Integers, Sequences, FiniteSets

Abs(x) == IF x < 0 THEN -x ELSE x
Sgn(x) == IF x < 0 THEN -1 ELSE IF x > 0 THEN 1 ELSE 0
Min2(x, y) == IF x <= y THEN x ELSE y
Max2(x, y) == IF x >= y THEN x ELSE y
Mod(x, n) == ((x % n) + n) % n
CeilDiv(x, n) == (x + n - 1) \div n

Line(n) == [kind |-> "line", n |-> n, w |-> n]
Ring(n) == [kind |-> "ring", n |-> n, w |-> n]
Grid(w, h) == [kind |-> "grid", n |-> w * h, w |-> w]

Pts(T) == 0 .. (T.n - 1)

D(T, a, b) ==
  CASE T.kind = "line" -> Abs(a - b)
    [] T.kind = "ring" -> LET x == Abs(a - b) IN Min2(x, T.n - x)
    [] T.kind = "grid" -> Abs((a % T.w) - (b % T.w)) + Abs((a \div T.w) - (b \div T.w))

\* canonical geodesic of an ordered pair lo <= hi
GeoCanon(T, lo, hi, k) ==
  CASE T.kind = "line" -> lo + k
    [] T.kind = "ring" ->
         LET up == hi - lo IN
         IF up <= T.n - up THEN lo + k ELSE Mod(lo - k, T.n)
    [] T.kind = "grid" ->
         LET x0 == lo % T.w  y0 == lo \div T.w
             x1 == hi % T.w  y1 == hi \div T.w
             dx == Abs(x1 - x0)
         IN IF k <= dx THEN y0 * T.w + (x0 + k * Sgn(x1 - x0))
                       ELSE (y0 + (k - dx) * Sgn(y1 - y0)) * T.w + x1

Geo(T, a, b, k) ==
  LET d  == D(T, a, b)
      kk == IF k < 0 THEN 0 ELSE IF k > d THEN d ELSE k
  IN IF a <= b THEN GeoCanon(T, a, b, kk) ELSE GeoCanon(T, b, a, d - kk)

\* the points of the canonical segment, as a sequence of length D+1 (from a to b)
Segment(T, a, b) == [k \in 1 .. (D(T, a, b) + 1) |-> Geo(T, a, b, k - 1)]

(***************************************************************************)
(* Laws every instance must satisfy (checked by TLC as ASSUMEs of          *)
(* MC_Metric for each configured topology).                                *)
(***************************************************************************)
MetricLaws(T) ==
  /\ \A a, b \in Pts(T) : D(T, a, b) >= 0 /\ (D(T, a, b) = 0 <=> a = b) /\ D(T, a, b) = D(T, b, a)
  /\ \A a, b, c \in Pts(T) : D(T, a, c) <= D(T, a, b) + D(T, b, c)

GeodesicLaws(T) ==
  \A a, b \in Pts(T) :
    LET d == D(T, a, b) IN
    /\ Geo(T, a, b, 0) = a /\ Geo(T, a, b, d) = b
    /\ \A k \in 0 .. d :
         /\ Geo(T, a, b, k) \in Pts(T)
         /\ D(T, a, Geo(T, a, b, k)) = k
         /\ D(T, Geo(T, a, b, k), b) = d - k
         /\ Geo(T, a, b, k) = Geo(T, b, a, d - k)

\* geodesic convexity of a region (used by C04)
Convex(T, R) == \A a, b \in R : \A k \in 0 .. D(T, a, b) : Geo(T, a, b, k) \in R
=============================================================================
