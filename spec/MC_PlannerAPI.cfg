CONSTANTS
  Planner <- MC_Planner
  MaxCalls <- MC_MaxCalls
  Faults <- MC_Faults
  StartValid <- MC_StartValid
  SetupChoices <- MC_SetupChoices
  Shape <- MC_Shape
SPECIFICATION Spec
CHECK_DEADLOCK FALSE
ACTION_CONSTRAINT Emit
INVARIANTS
  NeverPanics
  UninitExact
  UnsampledExact
  CheckerInstalled
