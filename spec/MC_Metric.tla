------------------------------ MODULE MC_Metric ------------------------------
(* Checks the metric / geodesic laws on every topology used by the planner    *)
(* configurations and prints the D / Geo tables, which bin/setup compares with *)
(* the tables of the executable lattice space (harness/src/lattice.rs).        *)
EXTENDS Metric, Json, TLC

Topos == << <<"line5", Line(5)>>, <<"line6", Line(6)>>, <<"line7", Line(7)>>, <<"ring6", Ring(6)>>, <<"ring8", Ring(8)>>,
            <<"ring7", Ring(7)>>, <<"grid3x3", Grid(3, 3)>>, <<"grid4x3", Grid(4, 3)>> >>

ASSUME \A i \in 1 .. Len(Topos) : MetricLaws(Topos[i][2]) /\ GeodesicLaws(Topos[i][2])

Table(T) ==
  [d   |-> [a \in 1 .. T.n |-> [b \in 1 .. T.n |-> D(T, a - 1, b - 1)]],
   geo |-> [a \in 1 .. T.n |-> [b \in 1 .. T.n |-> Segment(T, a - 1, b - 1)]]]

ASSUME PrintT(<<"TABLES", ToJson([i \in 1 .. Len(Topos) |-> [topo |-> Topos[i][1]] @@ Table(Topos[i][2])])>>)

VARIABLE x
Init == x = 0
Next == x' = x
=============================================================================
