CONSTANTS
  T <- MC_T
  MaxDist <- MC_MaxDist
  Lvs <- MC_Lvs
  Bias <- MC_Bias
  Seeded <- MC_Seeded
  TSet <- MC_TSet
  MaxCalls <- MC_MaxCalls
  WorldPairs <- MC_WorldPairs
  SetupChoices <- MC_SetupChoices
  Problems <- MC_Problems
  Region <- MC_Region
  ValidateRoots <- MC_ValidateRoots
  RestoreRng <- MC_RestoreRng
SPECIFICATION Spec
VIEW view
CHECK_DEADLOCK FALSE
ACTION_CONSTRAINT Emit
INVARIANTS
  TypeOK
  C01_NodesValid
  C01_PathValid
  C02_Endpoints
  C03_LinksCovered
  C03_PathFollowsLinks
  C04_InRegion
  C05_Step
  C06_OkImpliesReachable
  C06_Deadline
  C07_Provenance
  C08_Uninit
  C15_WellFormed
PROPERTY C16_Step
