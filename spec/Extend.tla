------------------------------- MODULE Extend -------------------------------
(***************************************************************************)
(* Pure operators shared by the tree planners (RRT, RRT*, RRT-Connect):    *)
(* nearest-node selection, steering, the extension step and path           *)
(* extraction.  A tree is a sequence of records [s |-> point, p |-> parent *)
(* index (0 for the root), c |-> recorded cost].                           *)
(***************************************************************************)
EXTENDS Motion

\* every index whose node is at minimal distance from q (the code takes the first one;
\* the property allows any)
ArgMin(T, tree, q) ==
  {i \in 1 .. Len(tree) : \A j \in 1 .. Len(tree) : D(T, tree[i].s, q) <= D(T, tree[j].s, q)}

FirstMin(T, tree, q) == CHOOSE i \in ArgMin(T, tree, q) : \A j \in ArgMin(T, tree, q) : i <= j

\* the new state: q itself when within one step, else the point at exactly MaxDist
Steer(T, near, q, MaxDist) ==
  IF D(T, near, q) > MaxDist THEN Geo(T, near, q, MaxDist) ELSE q

\* chain of indices from node i up to the root (root first); Depth bounds the walk so that
\* a cyclic "tree" yields a sequence that does not start at a root instead of diverging
RECURSIVE ChainUp(_, _, _)
ChainUp(tree, i, fuel) ==
  IF fuel = 0 THEN <<i>>
  ELSE IF tree[i].p = 0 THEN <<i>>
  ELSE Append(ChainUp(tree, tree[i].p, fuel - 1), i)

Chain(tree, i) == ChainUp(tree, i, Len(tree))
PathOf(tree, i) == [k \in 1 .. Len(Chain(tree, i)) |-> tree[Chain(tree, i)[k]].s]

Reverse(s) == [i \in 1 .. Len(s) |-> s[Len(s) + 1 - i]]
Last(s) == s[Len(s)]

\* structural well-formedness (C15): parents in range, every chain ends at the root
WellFormed(tree) ==
  /\ Len(tree) >= 1 /\ tree[1].p = 0
  /\ \A i \in 2 .. Len(tree) : tree[i].p \in 1 .. Len(tree) /\ tree[i].p # i
  /\ \A i \in 1 .. Len(tree) : tree[Chain(tree, i)[1]].p = 0 /\ Chain(tree, i)[1] = 1

\* points reachable from `from` by unit lattice steps through valid points
RECURSIVE ReachFrom(_, _, _)
ReachFrom(T, Valid, S) ==
  LET N == S \cup {b \in Valid : \E a \in S : D(T, a, b) = 1}
  IN IF N = S THEN S ELSE ReachFrom(T, Valid, N)
=============================================================================
