pub mod annot;
pub mod codec;
pub mod drive;
pub mod geom;
pub mod instr;
pub mod lattice;
pub mod timing;
pub mod tol;
