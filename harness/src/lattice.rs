//! Finite lattice state spaces with exact integer geometry. They are the executable twin of
//! `spec/Metric.tla` (the `D` / `Geo` tables are compared with TLC's own at start-up, see
//! `bin/latreplay --tables`). The real planners are generic over `StateSpace`, so they run on
//! these unchanged.

use oxmpl::base::{error::StateSamplingError, space::StateSpace, state::State};
use rand::Rng;
use std::cell::RefCell;
use std::collections::VecDeque;
use std::rc::Rc;

#[derive(Clone, Debug, PartialEq, Eq, Hash)]
pub struct LState(pub i64);

impl State for LState {
    fn as_any(&self) -> &dyn std::any::Any {
        self
    }
}

#[derive(Clone, Copy, Debug, PartialEq, Eq)]
pub enum Topo {
    /// points 0..n-1 on a line, D = |a-b|
    Line(i64),
    /// points 0..n-1 on a ring, D = min(|a-b|, n-|a-b|); antipodal ties go "upwards from the
    /// smaller index" (same rule as Metric.tla)
    Ring(i64),
    /// w x h grid, point = y*w+x, L1 metric, geodesic = x first then y, of the ordered pair
    /// (min,max) traversed either way
    Grid(i64, i64),
}

impl Topo {
    pub fn parse(s: &str) -> Topo {
        if let Some(r) = s.strip_prefix("line") {
            Topo::Line(r.parse().unwrap())
        } else if let Some(r) = s.strip_prefix("ring") {
            Topo::Ring(r.parse().unwrap())
        } else if let Some(r) = s.strip_prefix("grid") {
            let mut it = r.split('x');
            Topo::Grid(it.next().unwrap().parse().unwrap(), it.next().unwrap().parse().unwrap())
        } else {
            panic!("unknown topology {s}")
        }
    }
    pub fn name(&self) -> String {
        match self {
            Topo::Line(n) => format!("line{n}"),
            Topo::Ring(n) => format!("ring{n}"),
            Topo::Grid(w, h) => format!("grid{w}x{h}"),
        }
    }
    pub fn npoints(&self) -> i64 {
        match *self {
            Topo::Line(n) | Topo::Ring(n) => n,
            Topo::Grid(w, h) => w * h,
        }
    }
    pub fn d(&self, a: i64, b: i64) -> i64 {
        match *self {
            Topo::Line(_) => (a - b).abs(),
            Topo::Ring(n) => {
                let x = (a - b).abs();
                x.min(n - x)
            }
            Topo::Grid(w, _) => ((a % w) - (b % w)).abs() + ((a / w) - (b / w)).abs(),
        }
    }
    /// Canonical geodesic from lo to hi (lo <= hi as indices): the point k steps along.
    fn geo_canon(&self, lo: i64, hi: i64, k: i64) -> i64 {
        match *self {
            Topo::Line(_) => lo + k,
            Topo::Ring(n) => {
                // go upwards if hi-lo <= n-(hi-lo) (ties upwards), else downwards
                let up = hi - lo;
                if up <= n - up {
                    lo + k
                } else {
                    (lo - k).rem_euclid(n)
                }
            }
            Topo::Grid(w, _) => {
                let (x0, y0, x1, y1) = (lo % w, lo / w, hi % w, hi / w);
                let dx = (x1 - x0).abs();
                if k <= dx {
                    let x = x0 + k * (x1 - x0).signum();
                    y0 * w + x
                } else {
                    let y = y0 + (k - dx) * (y1 - y0).signum();
                    y * w + x1
                }
            }
        }
    }
    /// The point k units from a along the canonical shortest path between a and b
    /// (direction-symmetric: Geo(a,b,k) = Geo(b,a,D-k)).
    pub fn geo(&self, a: i64, b: i64, k: i64) -> i64 {
        let d = self.d(a, b);
        let k = k.clamp(0, d);
        if a <= b {
            self.geo_canon(a, b, k)
        } else {
            self.geo_canon(b, a, d - k)
        }
    }
}

/// What a scripted sampler does at one call.
#[derive(Clone, Debug)]
pub enum Scripted {
    Point(i64),
    Fail,
}

/// The sample script shared by the uniform sampler and the goal sampler of one run. Entry j
/// serves the j-th sampler call made during solve / construct_roadmap, whichever sampler the
/// planner chooses to call (so a run stays well defined even when the goal-bias pattern is not
/// the one the script's author had in mind). Goal samples drawn during `setup` come from
/// `setup_goal`.
pub struct LatScript {
    pub iters: Vec<(Scripted, Scripted)>,
    pub cursor: usize,
    pub setup_goal: VecDeque<Scripted>,
    pub in_setup: bool,
    pub overrun: usize,
    pub fallback_u: i64,
    pub fallback_g: i64,
}
impl LatScript {
    pub fn next(&mut self, goal: bool) -> Scripted {
        if goal && self.in_setup {
            return self.setup_goal.pop_front().unwrap_or(Scripted::Point(-1));
        }
        if self.cursor < self.iters.len() {
            let e = self.iters[self.cursor].clone();
            self.cursor += 1;
            if goal { e.1 } else { e.0 }
        } else {
            self.overrun += 1;
            Scripted::Point(if goal { -1 } else { self.fallback_u })
        }
    }
}
pub type Script = Rc<RefCell<LatScript>>;


#[derive(Clone)]
pub struct LatticeSpace {
    pub topo: Topo,
    /// longest valid segment length in lattice units
    pub lvs: f64,
    pub script: Script,
}

impl LatticeSpace {
    pub fn new(topo: Topo, lvs: f64) -> Self {
        LatticeSpace {
            topo,
            lvs,
            script: Rc::new(RefCell::new(LatScript {
                iters: Vec::new(),
                cursor: 0,
                setup_goal: VecDeque::new(),
                in_setup: false,
                overrun: 0,
                fallback_u: 0,
                fallback_g: 0,
            })),
        }
    }
}

impl StateSpace for LatticeSpace {
    type StateType = LState;

    fn distance(&self, a: &LState, b: &LState) -> f64 {
        self.topo.d(a.0, b.0) as f64
    }

    fn interpolate(&self, from: &LState, to: &LState, t: f64, out: &mut LState) {
        let d = self.topo.d(from.0, to.0);
        // t = 1 (and only t = 1) gives the far endpoint; for t < 1 the point ceil(d t) units along,
        // capped at d - 1: so `from` is not produced for t > 0 when d >= 2 (as on the real spaces, where
        // the checker is never asked about `from`), t = i/n and t = max/min_dist land exactly where Geo
        // says, and a check that skips its last step really skips the endpoint
        let k = if t >= 1.0 - 1e-12 { d } else { (((d as f64) * t - 1e-9).ceil() as i64).min(d - 1) };
        out.0 = self.topo.geo(from.0, to.0, k.clamp(0, d));
    }

    fn enforce_bounds(&self, _s: &mut LState) {}

    fn satisfies_bounds(&self, s: &LState) -> bool {
        s.0 >= 0 && s.0 < self.topo.npoints()
    }

    fn sample_uniform(&self, rng: &mut impl Rng) -> Result<LState, StateSamplingError> {
        // consume one word so that the generator's provenance is observable
        let _w: u64 = rng.next_u64();
        match self.script.borrow_mut().next(false) {
            Scripted::Point(p) => Ok(LState(p)),
            Scripted::Fail => Err(StateSamplingError::ZeroVolume),
        }
    }

    fn get_longest_valid_segment_length(&self) -> f64 {
        self.lvs
    }
}

/// Goal region on a lattice: a set of points; samples come from the shared script.
pub struct LatGoal {
    pub set: std::collections::HashSet<i64>,
    pub script: Script,
    pub topo: Topo,
}
impl crate::instr::HGoal<LState> for LatGoal {
    fn satisfied(&self, s: &LState) -> bool {
        self.set.contains(&s.0)
    }
    fn dist(&self, s: &LState) -> f64 {
        self.set.iter().map(|g| self.topo.d(*g, s.0)).min().unwrap_or(0) as f64
    }
    fn sample(&self, rng: &mut dyn rand::RngCore) -> Result<LState, StateSamplingError> {
        let _w = rng.next_u64();
        match self.script.borrow_mut().next(true) {
            // a negative scripted point means "any goal state": the smallest one of this region
            Scripted::Point(p) if p < 0 => Ok(LState(*self.set.iter().min().unwrap_or(&0))),
            Scripted::Point(p) => Ok(LState(p)),
            Scripted::Fail => Err(StateSamplingError::GoalRegionUnsatisfiable),
        }
    }
}
