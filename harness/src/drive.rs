//! Drives the real planners through a call history on instrumented spaces and collects, per API
//! call, the raw ordered log, the outcome (a panic is data) and a snapshot of the planner's
//! private state.

use crate::instr::*;
use oxmpl::base::{
    error::PlanningError,
    planner::{Planner, PlannerConfig},
    problem_definition::ProblemDefinition,
    space::StateSpace,
    state::State,
};
use oxmpl::geometric::{PRM, RRT, RRTConnect, RRTStar};
use oxmpl::verif;
use std::cell::RefCell;
use std::panic::{catch_unwind, AssertUnwindSafe};
use std::rc::Rc;
use std::sync::Arc;
use std::time::Duration;

pub const TICK_NS: u64 = 1_000_000; // one virtual tick = 1 ms

#[derive(Clone, Copy, Debug, PartialEq, Eq)]
pub enum Kind {
    Rrt,
    Star,
    Conn,
    Prm,
}
impl Kind {
    pub fn name(&self) -> &'static str {
        match self {
            Kind::Rrt => "rrt",
            Kind::Star => "rrtstar",
            Kind::Conn => "rrtc",
            Kind::Prm => "prm",
        }
    }
    pub fn parse(s: &str) -> Kind {
        match s {
            "rrt" => Kind::Rrt,
            "rrtstar" => Kind::Star,
            "rrtc" => Kind::Conn,
            "prm" => Kind::Prm,
            _ => panic!("unknown planner {s}"),
        }
    }
}

#[derive(Clone, Debug, PartialEq)]
pub struct Params {
    pub maxd: f64,
    pub bias: f64,
    pub radius: f64,
    /// PRM build time in ticks
    pub build_ticks: u64,
    pub seed: Option<u64>,
}

#[derive(Clone, Debug, PartialEq)]
pub enum Call {
    Setup(usize),
    Solve(u64),
    /// solve with a time limit that runs out DURING the call: every validity query of this call costs
    /// one tick (so that e.g. PRM's graph search meets an expired deadline)
    SolveTicking(u64),
    Construct,
    SetPd(usize),
    /// assigns the planner's public parameter fields (step, goal bias, radius, build time)
    SetParams(Params),
}

pub struct Problem<S> {
    pub starts: Vec<S>,
    pub goal: Rc<dyn HGoal<S>>,
    pub checker: Rc<dyn Fn(&S) -> bool>,
    /// Object identity as a caller would have it: entries with the same `pd_key` hand the planner the
    /// SAME `Arc<ProblemDefinition>` (start, goal and space of the first such entry), entries with the
    /// same `vc_key` the SAME checker `Arc` (function of the first such entry). `None` = an object of
    /// its own. An entry is thus one (problem definition, checker) combination that `setup` installs.
    pub pd_key: Option<usize>,
    pub vc_key: Option<usize>,
}

#[derive(Clone, Debug)]
pub enum Outcome<S> {
    Unit,
    Path(Vec<S>),
    Err(&'static str),
    Panic { msg: String, loc: String },
}

#[derive(Clone, Debug)]
pub enum Snapshot<S> {
    Trees(Vec<Vec<(S, Option<usize>, f64)>>),
    Roadmap(Vec<(S, Vec<usize>)>),
}

pub struct CallRec<S> {
    pub call: Call,
    pub t_begin: u64,
    pub t_end: u64,
    pub raw: Vec<Raw<S>>,
    pub outcome: Outcome<S>,
    pub snap: Snapshot<S>,
    pub n_uniform_before: u64,
    pub n_goal_before: u64,
}

thread_local! {
    static LAST_PANIC: RefCell<Option<(String, String)>> = const { RefCell::new(None) };
}

pub fn install_panic_hook() {
    std::panic::set_hook(Box::new(|info| {
        let msg = if let Some(s) = info.payload().downcast_ref::<&str>() {
            s.to_string()
        } else if let Some(s) = info.payload().downcast_ref::<String>() {
            s.clone()
        } else {
            "<non-string panic>".to_string()
        };
        // site = file name + a slug of the message (line numbers would make the identity of a
        // panic site depend on unrelated edits above it)
        let slug: String = msg
            .chars()
            .map(|c| if c.is_ascii_alphanumeric() { c } else { '-' })
            .collect::<String>()
            .split('-')
            .filter(|w| !w.is_empty())
            .collect::<Vec<_>>()
            .join("-");
        let slug: String = slug.chars().take(60).collect();
        let loc = info
            .location()
            .map(|l| {
                let f = l.file();
                let f = f.rsplit('/').next().unwrap_or(f);
                format!("{}:{}", f, slug)
            })
            .unwrap_or_else(|| "?".into());
        LAST_PANIC.with(|p| *p.borrow_mut() = Some((msg, loc)));
    }));
}

fn err_kind(e: &PlanningError) -> &'static str {
    match e {
        PlanningError::Timeout => "timeout",
        PlanningError::NoSolutionFound => "nosolution",
        PlanningError::PlannerUninitialised => "uninit",
        PlanningError::InvalidStartState => "invalidstart",
        PlanningError::UnsampledStateSpace => "unsampled",
    }
}

enum AnyPlanner<SP: StateSpace>
where
    SP::StateType: Clone,
{
    Rrt(RRT<SP::StateType, ISpace<SP>, IGoal<SP::StateType>>),
    Star(RRTStar<SP::StateType, ISpace<SP>, IGoal<SP::StateType>>),
    Conn(RRTConnect<SP::StateType, ISpace<SP>, IGoal<SP::StateType>>),
    Prm(PRM<SP::StateType, ISpace<SP>, IGoal<SP::StateType>>),
}

type PD<SP> = ProblemDefinition<
    <SP as StateSpace>::StateType,
    ISpace<SP>,
    IGoal<<SP as StateSpace>::StateType>,
>;

impl<SP: StateSpace> AnyPlanner<SP>
where
    SP::StateType: State + Clone,
{
    fn new(kind: Kind, p: &Params) -> Self {
        let cfg = PlannerConfig { seed: p.seed };
        match kind {
            Kind::Rrt => AnyPlanner::Rrt(RRT::new(p.maxd, p.bias, &cfg)),
            Kind::Star => AnyPlanner::Star(RRTStar::new(p.maxd, p.bias, p.radius, &cfg)),
            Kind::Conn => AnyPlanner::Conn(RRTConnect::new(p.maxd, p.bias, &cfg)),
            Kind::Prm => AnyPlanner::Prm(PRM::new(
                // (probe encodings of a degenerate build time: u64::MAX = NaN, u64::MAX - 1 = -1 s)
                if p.build_ticks == u64::MAX { f64::NAN } else if p.build_ticks == u64::MAX - 1 { -1.0 } else { p.build_ticks as f64 / 1000.0 },
                p.radius,
                &cfg,
            )),
        }
    }
    fn setup(&mut self, pd: Arc<PD<SP>>, vc: Arc<IChecker<SP::StateType>>) {
        match self {
            AnyPlanner::Rrt(p) => p.setup(pd, vc),
            AnyPlanner::Star(p) => p.setup(pd, vc),
            AnyPlanner::Conn(p) => p.setup(pd, vc),
            AnyPlanner::Prm(p) => p.setup(pd, vc),
        }
    }
    fn solve(&mut self, t: Duration) -> Result<oxmpl::base::planner::Path<SP::StateType>, PlanningError> {
        match self {
            AnyPlanner::Rrt(p) => p.solve(t),
            AnyPlanner::Star(p) => p.solve(t),
            AnyPlanner::Conn(p) => p.solve(t),
            AnyPlanner::Prm(p) => p.solve(t),
        }
    }
    fn set_params(&mut self, p: &Params) {
        match self {
            AnyPlanner::Rrt(x) => {
                x.max_distance = p.maxd;
                x.goal_bias = p.bias;
            }
            AnyPlanner::Star(x) => {
                x.max_distance = p.maxd;
                x.goal_bias = p.bias;
                x.search_radius = p.radius;
            }
            AnyPlanner::Conn(x) => {
                x.max_distance = p.maxd;
                x.goal_bias = p.bias;
            }
            AnyPlanner::Prm(x) => {
                x.connection_radius = p.radius;
                x.timeout = p.build_ticks as f64 / 1000.0;
            }
        }
    }
    fn snapshot(&self) -> Snapshot<SP::StateType> {
        match self {
            AnyPlanner::Rrt(p) => Snapshot::Trees(vec![p.verif_tree()]),
            AnyPlanner::Star(p) => Snapshot::Trees(vec![p.verif_tree()]),
            AnyPlanner::Conn(p) => Snapshot::Trees(p.verif_trees().to_vec()),
            AnyPlanner::Prm(p) => Snapshot::Roadmap(p.verif_roadmap()),
        }
    }
}

pub struct RunCfg {
    pub tick_sample: u64,
    pub tick_query: u64,
    /// cost of a validity query in nanoseconds of virtual time, when it is not a whole number of ticks
    /// (0 = use `tick_query`)
    pub query_ns: u64,
    /// extra sampler calls tolerated after the deadline before the run is aborted
    pub cap_slack: u64,
    pub query_cap: u64,
    pub fail_uniform_at: Option<u64>,
    pub fail_goal_at: Option<u64>,
    /// run on the wall clock instead of virtual time (used by the Python mirror)
    pub wallclock: bool,
}
impl Default for RunCfg {
    fn default() -> Self {
        RunCfg {
            tick_sample: 1,
            tick_query: 0,
            query_ns: 0,
            cap_slack: 8,
            query_cap: 3_000_000,
            fail_uniform_at: None,
            fail_goal_at: None,
            wallclock: false,
        }
    }
}

pub fn run_history_wallclock<SP>(
    kind: Kind,
    params: &Params,
    space: SP,
    problems: &[Problem<SP::StateType>],
    calls: &[Call],
    cfg: &RunCfg,
) -> Vec<CallRec<SP::StateType>>
where
    SP: StateSpace + Clone,
    SP::StateType: State + Clone,
{
    let c = RunCfg { wallclock: true, tick_sample: cfg.tick_sample, tick_query: cfg.tick_query, query_ns: cfg.query_ns, cap_slack: cfg.cap_slack,
                     query_cap: cfg.query_cap, fail_uniform_at: cfg.fail_uniform_at, fail_goal_at: cfg.fail_goal_at };
    run_history_marked(kind, params, space, problems, calls, &c, &|_, _| {})
}

/// Runs one planner instance through `calls`. `space` is shared by all problems.
pub fn run_history<SP>(
    kind: Kind,
    params: &Params,
    space: SP,
    problems: &[Problem<SP::StateType>],
    calls: &[Call],
    cfg: &RunCfg,
) -> Vec<CallRec<SP::StateType>>
where
    SP: StateSpace + Clone,
    SP::StateType: State + Clone,
{
    run_history_marked(kind, params, space, problems, calls, cfg, &|_, _| {})
}

/// Same, with a callback invoked before (`true`) and after (`false`) every call.
pub fn run_history_marked<SP>(
    kind: Kind,
    params: &Params,
    space: SP,
    problems: &[Problem<SP::StateType>],
    calls: &[Call],
    cfg: &RunCfg,
    on_call: &dyn Fn(&Call, bool),
) -> Vec<CallRec<SP::StateType>>
where
    SP: StateSpace + Clone,
    SP::StateType: State + Clone,
{
    run_history_spaces(kind, params, &[space], problems, calls, cfg, on_call)
}

/// The general form: `spaces` holds either one space shared by all problems (one `Arc`, as a user
/// who re-uses a space object would have) or one space per problem (re-setup on a different space).
pub fn run_history_spaces<SP>(
    kind: Kind,
    params: &Params,
    spaces: &[SP],
    problems: &[Problem<SP::StateType>],
    calls: &[Call],
    cfg: &RunCfg,
    on_call: &dyn Fn(&Call, bool),
) -> Vec<CallRec<SP::StateType>>
where
    SP: StateSpace + Clone,
    SP::StateType: State + Clone,
{
    let log: Log<SP::StateType> = new_log();
    {
        let mut l = log.borrow_mut();
        l.ctl.tick_sample = cfg.tick_sample * TICK_NS;
        l.ctl.tick_query = if cfg.query_ns > 0 { cfg.query_ns } else { cfg.tick_query * TICK_NS };
        l.ctl.fail_uniform_at = cfg.fail_uniform_at;
        l.ctl.fail_goal_at = cfg.fail_goal_at;
    }
    verif::set_recording(true);
    verif::take_events();
    verif::set_virtual_time(if cfg.wallclock { None } else { Some(0) });

    let ispaces: Vec<Arc<ISpace<SP>>> = spaces
        .iter()
        .map(|sp| Arc::new(ISpace { inner: sp.clone(), log: log.clone() }))
        .collect();
    let mut pd_by_key: std::collections::HashMap<usize, Arc<PD<SP>>> = Default::default();
    let mut vc_by_key: std::collections::HashMap<usize, Arc<IChecker<SP::StateType>>> = Default::default();
    let pds: Vec<(Arc<PD<SP>>, Arc<IChecker<SP::StateType>>)> = problems
        .iter()
        .enumerate()
        .map(|(pi, p)| {
            let mk_pd = || {
                Arc::new(ProblemDefinition {
                    space: ispaces[if ispaces.len() == 1 { 0 } else { pi }].clone(),
                    start_states: p.starts.clone(),
                    goal: Arc::new(IGoal {
                        inner: p.goal.clone(),
                        log: log.clone(),
                    }),
                })
            };
            let mk_vc = || {
                Arc::new(IChecker {
                    f: p.checker.clone(),
                    log: log.clone(),
                })
            };
            let pd = match p.pd_key {
                Some(k) => pd_by_key.entry(k).or_insert_with(mk_pd).clone(),
                None => mk_pd(),
            };
            let vc = match p.vc_key {
                Some(k) => vc_by_key.entry(k).or_insert_with(mk_vc).clone(),
                None => mk_vc(),
            };
            (pd, vc)
        })
        .collect();

    let mut planner: AnyPlanner<SP> = AnyPlanner::new(kind, params);
    let mut cur_params: Params = params.clone();
    let mut out = Vec::new();

    for call in calls {
        let t_begin = verif::virtual_time().unwrap_or(0);
        let (nu, ng) = {
            let mut l = log.borrow_mut();
            l.ctl.n_samples_this_call = 0;
            l.ctl.n_queries_this_call = 0;
            l.ctl.query_cap = cfg.query_cap;
            l.ctl.tick_query = if matches!(call, Call::SolveTicking(_)) { TICK_NS } else if cfg.query_ns > 0 { cfg.query_ns } else { cfg.tick_query * TICK_NS };
            let budget = match call {
                Call::Solve(t) | Call::SolveTicking(t) => *t,
                Call::Construct => if cur_params.build_ticks >= u64::MAX - 1 { 5 } else { cur_params.build_ticks },
                _ => 0,
            };
            l.ctl.sample_cap = if cfg.wallclock {
                u64::MAX
            } else if cfg.tick_sample == 0 {
                100_000
            } else {
                budget / cfg.tick_sample.max(1) + 2 + cfg.cap_slack
            };
            (l.ctl.n_uniform, l.ctl.n_goal)
        };
        // a time limit that runs out during the call: the clock itself costs a tick per reading
        verif::set_clock_read_cost(if matches!(call, Call::SolveTicking(_)) { TICK_NS } else { 0 });
        LAST_PANIC.with(|p| *p.borrow_mut() = None);
        on_call(call, true);
        let res: Result<Outcome<SP::StateType>, _> = catch_unwind(AssertUnwindSafe(|| match call {
            Call::Setup(i) => {
                let (pd, vc) = &pds[*i];
                planner.setup(pd.clone(), vc.clone());
                Outcome::Unit
            }
            Call::SetPd(i) => {
                if let AnyPlanner::Prm(p) = &mut planner {
                    p.set_problem_definition(pds[*i].0.clone());
                }
                Outcome::Unit
            }
            Call::Construct => {
                if let AnyPlanner::Prm(p) = &mut planner {
                    match p.construct_roadmap() {
                        Ok(()) => Outcome::Unit,
                        Err(e) => Outcome::Err(err_kind(&e)),
                    }
                } else {
                    Outcome::Unit
                }
            }
            Call::SetParams(p) => {
                planner.set_params(p);
                cur_params = p.clone();
                Outcome::Unit
            }
            Call::Solve(t) | Call::SolveTicking(t) => match planner.solve(Duration::from_nanos(*t * TICK_NS)) {
                Ok(p) => Outcome::Path(p.0),
                Err(e) => Outcome::Err(err_kind(&e)),
            },
        }));
        let outcome = match res {
            Ok(o) => o,
            Err(_) => {
                let (msg, loc) = LAST_PANIC
                    .with(|p| p.borrow_mut().take())
                    .unwrap_or(("?".into(), "?".into()));
                Outcome::Panic { msg, loc }
            }
        };
        on_call(call, false);
        verif::set_clock_read_cost(0);
        drain_hooks(&log);
        let raw = std::mem::take(&mut log.borrow_mut().raw);
        let snap = planner.snapshot();
        out.push(CallRec {
            call: call.clone(),
            t_begin,
            t_end: verif::virtual_time().unwrap_or(0),
            raw,
            outcome,
            snap,
            n_uniform_before: nu,
            n_goal_before: ng,
        });
    }
    verif::set_virtual_time(None);
    verif::set_recording(false);
    out
}
