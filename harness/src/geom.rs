//! Geometric facts the annotator needs, with an independent three-valued motion oracle.

use crate::lattice::{LState, Topo};
use crate::tol;
use oxmpl::base::space::StateSpace;
use std::collections::HashSet;
use std::rc::Rc;

pub const FREE: u8 = 0;
pub const BLOCKED: u8 = 1;
pub const UNKNOWN: u8 = 2;

pub trait Geom<S> {
    fn dist(&self, a: &S, b: &S) -> f64;
    fn interp(&self, a: &S, b: &S, t: f64) -> S;
    fn in_bounds(&self, s: &S) -> bool;
    fn lvs(&self) -> f64;
    /// Some(length from a) when x lies on the segment a -> b
    fn on_segment(&self, a: &S, b: &S, x: &S) -> Option<f64>;
    /// what is knowable about the motion a -> b at the property's resolution (gap = lvs)
    fn oracle(&self, a: &S, b: &S) -> u8;
    /// length unit of the trace and the monitor's integer tolerance
    fn unit(&self) -> f64;
    fn tol_units(&self) -> i64;
    fn mode(&self) -> &'static str;
    fn name(&self) -> String;
    fn valid(&self, s: &S) -> bool;
}

pub fn to_units(x: f64, unit: f64) -> i64 {
    let v = (x / unit).round();
    if v.is_nan() {
        -1
    } else {
        v.clamp(-2.0e9, 2.0e9) as i64
    }
}

// ---------------------------------------------------------------------------------------------

pub struct LatGeom {
    pub topo: Topo,
    pub lvs: i64,
    pub valid: HashSet<i64>,
}

impl Geom<LState> for LatGeom {
    fn dist(&self, a: &LState, b: &LState) -> f64 {
        self.topo.d(a.0, b.0) as f64
    }
    fn interp(&self, a: &LState, b: &LState, t: f64) -> LState {
        let d = self.topo.d(a.0, b.0);
        let k = if t >= 1.0 - 1e-12 { d } else { (((d as f64) * t - 1e-9).ceil() as i64).min(d - 1) };
        LState(self.topo.geo(a.0, b.0, k.clamp(0, d)))
    }
    fn in_bounds(&self, s: &LState) -> bool {
        s.0 >= 0 && s.0 < self.topo.npoints()
    }
    fn lvs(&self) -> f64 {
        self.lvs as f64
    }
    fn on_segment(&self, a: &LState, b: &LState, x: &LState) -> Option<f64> {
        // exact: x must be a point of the canonical geodesic
        let d = self.topo.d(a.0, b.0);
        let k = self.topo.d(a.0, x.0);
        if k <= d && self.topo.geo(a.0, b.0, k) == x.0 {
            Some(k as f64)
        } else {
            None
        }
    }
    fn oracle(&self, a: &LState, b: &LState) -> u8 {
        let d = self.topo.d(a.0, b.0);
        let pts: Vec<bool> = (1..=d).map(|k| self.valid.contains(&self.topo.geo(a.0, b.0, k))).collect();
        let bvalid = self.valid.contains(&b.0);
        if pts.iter().all(|v| *v) {
            return if bvalid { FREE } else { BLOCKED };
        }
        if !bvalid {
            return BLOCKED;
        }
        let l = self.lvs as usize;
        let mut run = 0usize;
        for v in &pts {
            if !*v {
                run += 1;
                if run >= l {
                    return BLOCKED;
                }
            } else {
                run = 0;
            }
        }
        UNKNOWN
    }
    fn unit(&self) -> f64 {
        0.5
    }
    fn tol_units(&self) -> i64 {
        0
    }
    fn mode(&self) -> &'static str {
        "lattice"
    }
    fn name(&self) -> String {
        self.topo.name()
    }
    fn valid(&self, s: &LState) -> bool {
        self.valid.contains(&s.0)
    }
}

// ---------------------------------------------------------------------------------------------

/// A world on a real space: a clearance function that is 1-Lipschitz in the space's own
/// metric; a state is valid iff its clearance is positive.
pub struct RealGeom<SP: StateSpace> {
    pub space: SP,
    pub clearance: Rc<dyn Fn(&SP::StateType) -> f64>,
    pub label: String,
}

impl<SP: StateSpace> Geom<SP::StateType> for RealGeom<SP>
where
    SP::StateType: Clone,
{
    fn dist(&self, a: &SP::StateType, b: &SP::StateType) -> f64 {
        self.space.distance(a, b)
    }
    fn interp(&self, a: &SP::StateType, b: &SP::StateType, t: f64) -> SP::StateType {
        let mut out = a.clone();
        self.space.interpolate(a, b, t, &mut out);
        out
    }
    fn in_bounds(&self, s: &SP::StateType) -> bool {
        self.space.satisfies_bounds(s)
    }
    fn lvs(&self) -> f64 {
        self.space.get_longest_valid_segment_length()
    }
    fn on_segment(&self, a: &SP::StateType, b: &SP::StateType, x: &SP::StateType) -> Option<f64> {
        let l = self.dist(a, b);
        let da = self.dist(a, x);
        let db = self.dist(x, b);
        if da + db - l <= tol::ON_SEGMENT_FRAC * self.lvs() && da <= l * (1.0 + 1e-9) + 1e-12 {
            Some(da.min(l))
        } else {
            None
        }
    }
    fn oracle(&self, a: &SP::StateType, b: &SP::StateType) -> u8 {
        let lvs = self.lvs();
        if !(lvs > 0.0) || !lvs.is_finite() {
            return UNKNOWN;
        }
        let l = self.dist(a, b);
        if !l.is_finite() {
            return UNKNOWN;
        }
        let cb = (self.clearance)(b);
        let h = tol::ORACLE_STEP_FRAC * lvs;
        let n = ((l / h).ceil() as usize).max(1);
        if n > 200_000 {
            return UNKNOWN;
        }
        let mut all_free = true;
        let mut blocked = !(cb > 0.0);
        let mut run_start: Option<usize> = None;
        let mut prev = a.clone();
        let mut maxgap: f64 = 0.0;
        let mut cl: Vec<f64> = Vec::with_capacity(n + 1);
        cl.push((self.clearance)(a));
        for i in 1..=n {
            let x = if i == n { b.clone() } else { self.interp(a, b, i as f64 / n as f64) };
            maxgap = maxgap.max(self.dist(&prev, &x));
            cl.push((self.clearance)(&x));
            prev = x;
        }
        let need = maxgap * 0.5 * (1.0 + 1e-6) + 1e-9 * lvs;
        for (i, c) in cl.iter().enumerate() {
            if !(*c > need) {
                all_free = false;
            }
            if *c < -need {
                if run_start.is_none() {
                    run_start = Some(i);
                }
                let len = (i - run_start.unwrap()) as f64 * (l / n as f64);
                if len >= lvs * (1.0 + 1e-6) {
                    blocked = true;
                }
            } else {
                run_start = None;
            }
        }
        if blocked {
            BLOCKED
        } else if all_free {
            FREE
        } else {
            UNKNOWN
        }
    }
    fn unit(&self) -> f64 {
        self.lvs() / tol::UNITS_PER_LVS
    }
    fn tol_units(&self) -> i64 {
        tol::REAL_TOL_UNITS
    }
    fn mode(&self) -> &'static str {
        "real"
    }
    fn name(&self) -> String {
        self.label.clone()
    }
    fn valid(&self, s: &SP::StateType) -> bool {
        (self.clearance)(s) > 0.0
    }
}
