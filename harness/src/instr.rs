//! Instrumented `StateSpace` / `Goal` / `StateValidityChecker` wrappers. Everything the planner
//! asks the user's callbacks, and every hook event from inside the planner, ends up in one
//! totally ordered raw log (single thread, no wall clock anywhere).

use oxmpl::base::{
    error::StateSamplingError,
    goal::{Goal, GoalRegion, GoalSampleableRegion},
    space::StateSpace,
    state::State,
    validity::StateValidityChecker,
};
use oxmpl::verif::{self, Event};
use rand::{Rng, RngCore};
use std::cell::RefCell;
use std::rc::Rc;

pub const ABORT_MARKER: &str = "VERIF_ABORT_SAMPLE_CAP";
pub const QUERY_CAP_MARKER: &str = "VERIF_ABORT_QUERY_CAP";

/// One generator call observed inside a sampler.
#[derive(Clone, Debug, PartialEq)]
pub enum Draw {
    U32(u32),
    U64(u64),
    Fill(Vec<u8>),
}

/// Records what a sampler draws from the generator it was handed.
pub struct CountRng<'a, R: RngCore + ?Sized> {
    pub inner: &'a mut R,
    pub draws: Vec<Draw>,
}
impl<'a, R: RngCore + ?Sized> RngCore for CountRng<'a, R> {
    fn next_u32(&mut self) -> u32 {
        let v = self.inner.next_u32();
        self.draws.push(Draw::U32(v));
        v
    }
    fn next_u64(&mut self) -> u64 {
        let v = self.inner.next_u64();
        self.draws.push(Draw::U64(v));
        v
    }
    fn fill_bytes(&mut self, dest: &mut [u8]) {
        self.inner.fill_bytes(dest);
        self.draws.push(Draw::Fill(dest.to_vec()));
    }
}

#[derive(Clone, Debug)]
pub enum Raw<S> {
    Hook(Event),
    /// (result, virtual time at entry, generator calls made by the sampler)
    SampleUniform(Result<S, String>, u64, Vec<Draw>),
    SampleGoal(Result<S, String>, u64, Vec<Draw>),
    IsValid(S, bool),
    IsSatisfied(S, bool),
}

/// Knobs the driver sets per call.
#[derive(Clone, Debug)]
pub struct Ctl {
    /// virtual nanoseconds charged per sampler call / per validity query
    pub tick_sample: u64,
    pub tick_query: u64,
    /// abort (panic with ABORT_MARKER) when more sampler calls than this happen in one API call
    pub sample_cap: u64,
    /// abort when more validity queries than this happen in one API call
    pub query_cap: u64,
    /// fail the k-th uniform / goal sampler call of the run (1-based, counted over the run)
    pub fail_uniform_at: Option<u64>,
    pub fail_goal_at: Option<u64>,
    pub n_uniform: u64,
    pub n_goal: u64,
    pub n_samples_this_call: u64,
    pub n_queries_this_call: u64,
    pub drop_push: Option<u64>,
    pub n_push_seen: u64,
}
impl Default for Ctl {
    fn default() -> Self {
        Ctl {
            tick_sample: 0,
            tick_query: 0,
            sample_cap: u64::MAX,
            query_cap: u64::MAX,
            fail_uniform_at: None,
            fail_goal_at: None,
            n_uniform: 0,
            n_goal: 0,
            n_samples_this_call: 0,
            n_queries_this_call: 0,
            drop_push: std::env::var("VERIF_DROP_PUSH").ok().and_then(|v| v.parse().ok()),
            n_push_seen: 0,
        }
    }
}

pub struct Shared<S> {
    pub raw: Vec<Raw<S>>,
    pub ctl: Ctl,
}
pub type Log<S> = Rc<RefCell<Shared<S>>>;

pub fn new_log<S>() -> Log<S> {
    Rc::new(RefCell::new(Shared {
        raw: Vec::new(),
        ctl: Ctl::default(),
    }))
}

/// Move the planner's own hook events (emitted since the last wrapper call) into the log.
pub fn drain_hooks<S>(log: &Log<S>) {
    let evs = verif::take_events();
    if !evs.is_empty() {
        let mut l = log.borrow_mut();
        for e in evs {
            // self-test of the binding: VERIF_DROP_PUSH=n silently loses the n-th Push hook event of
            // every run (the monitor must then reject the run: C15/snapshot)
            if let Event::Push { parent: Some(_), .. } = &e {
                l.ctl.n_push_seen += 1;
                if l.ctl.drop_push == Some(l.ctl.n_push_seen) {
                    continue;
                }
            }
            l.raw.push(Raw::Hook(e));
        }
    }
}

fn vnow() -> u64 {
    verif::virtual_time().unwrap_or(0)
}

// ---------------------------------------------------------------------------------------------

pub struct ISpace<SP: StateSpace> {
    pub inner: SP,
    pub log: Log<SP::StateType>,
}

impl<SP: StateSpace> StateSpace for ISpace<SP>
where
    SP::StateType: Clone,
{
    type StateType = SP::StateType;

    fn distance(&self, a: &Self::StateType, b: &Self::StateType) -> f64 {
        self.inner.distance(a, b)
    }
    fn interpolate(&self, from: &Self::StateType, to: &Self::StateType, t: f64, out: &mut Self::StateType) {
        self.inner.interpolate(from, to, t, out)
    }
    fn enforce_bounds(&self, s: &mut Self::StateType) {
        self.inner.enforce_bounds(s)
    }
    fn satisfies_bounds(&self, s: &Self::StateType) -> bool {
        self.inner.satisfies_bounds(s)
    }
    fn sample_uniform(&self, rng: &mut impl Rng) -> Result<Self::StateType, StateSamplingError> {
        drain_hooks(&self.log);
        let t0 = vnow();
        let fail = {
            let mut l = self.log.borrow_mut();
            l.ctl.n_uniform += 1;
            l.ctl.n_samples_this_call += 1;
            if l.ctl.n_samples_this_call > l.ctl.sample_cap {
                drop(l);
                panic!("{}", ABORT_MARKER);
            }
            l.ctl.fail_uniform_at == Some(l.ctl.n_uniform)
        };
        let mut crng = CountRng { inner: rng, draws: Vec::new() };
        let res = if fail {
            Err(StateSamplingError::ZeroVolume)
        } else {
            self.inner.sample_uniform(&mut crng)
        };
        let draws = std::mem::take(&mut crng.draws);
        let mut l = self.log.borrow_mut();
        verif::advance_virtual_time(l.ctl.tick_sample);
        l.raw.push(Raw::SampleUniform(
            res.as_ref().map(|s| s.clone()).map_err(|e| format!("{e:?}")),
            t0,
            draws,
        ));
        res
    }
    fn get_longest_valid_segment_length(&self) -> f64 {
        self.inner.get_longest_valid_segment_length()
    }
}

// ---------------------------------------------------------------------------------------------

/// What the harness needs from a goal region (object-safe; the generator is a `dyn RngCore`).
pub trait HGoal<S> {
    fn satisfied(&self, s: &S) -> bool;
    fn dist(&self, s: &S) -> f64;
    fn sample(&self, rng: &mut dyn RngCore) -> Result<S, StateSamplingError>;
}

pub struct IGoal<S> {
    pub inner: Rc<dyn HGoal<S>>,
    pub log: Log<S>,
}

impl<S: State + Clone> Goal<S> for IGoal<S> {
    fn is_satisfied(&self, s: &S) -> bool {
        drain_hooks(&self.log);
        let a = self.inner.satisfied(s);
        self.log.borrow_mut().raw.push(Raw::IsSatisfied(s.clone(), a));
        a
    }
}
impl<S: State + Clone> GoalRegion<S> for IGoal<S> {
    fn distance_goal(&self, s: &S) -> f64 {
        self.inner.dist(s)
    }
}
impl<S: State + Clone> GoalSampleableRegion<S> for IGoal<S> {
    fn sample_goal(&self, rng: &mut impl Rng) -> Result<S, StateSamplingError> {
        drain_hooks(&self.log);
        let t0 = vnow();
        let fail = {
            let mut l = self.log.borrow_mut();
            l.ctl.n_goal += 1;
            l.ctl.n_samples_this_call += 1;
            if l.ctl.n_samples_this_call > l.ctl.sample_cap {
                drop(l);
                panic!("{}", ABORT_MARKER);
            }
            l.ctl.fail_goal_at == Some(l.ctl.n_goal)
        };
        let mut crng = CountRng { inner: rng, draws: Vec::new() };
        let res = if fail {
            Err(StateSamplingError::GoalRegionUnsatisfiable)
        } else {
            self.inner.sample(&mut crng)
        };
        let draws = std::mem::take(&mut crng.draws);
        let mut l = self.log.borrow_mut();
        verif::advance_virtual_time(l.ctl.tick_sample);
        l.raw.push(Raw::SampleGoal(
            res.as_ref().map(|s| s.clone()).map_err(|e| format!("{e:?}")),
            t0,
            draws,
        ));
        res
    }
}

// ---------------------------------------------------------------------------------------------

pub struct IChecker<S> {
    pub f: Rc<dyn Fn(&S) -> bool>,
    pub log: Log<S>,
}

impl<S: State + Clone> StateValidityChecker<S> for IChecker<S> {
    fn is_valid(&self, s: &S) -> bool {
        drain_hooks(&self.log);
        {
            let mut l = self.log.borrow_mut();
            l.ctl.n_queries_this_call += 1;
            if l.ctl.n_queries_this_call > l.ctl.query_cap {
                drop(l);
                panic!("{}", QUERY_CAP_MARKER);
            }
        }
        let a = (self.f)(s);
        let mut l = self.log.borrow_mut();
        verif::advance_virtual_time(l.ctl.tick_query);
        l.raw.push(Raw::IsValid(s.clone(), a));
        a
    }
}
