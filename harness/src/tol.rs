//! The one table of tolerances (quoted in the evidence files).
//!
//! The properties say "up to rounding"; this table says how much.

/// Relative band inside which two floating-point lengths are treated as equal when ranking
/// distances / costs or comparing with a threshold (`<`, `<=` decisions inside the band are
/// classified inconclusive, never reported).
pub const REL_TIE: f64 = 1e-12;

/// Length unit of real-space traces: lvs / UNITS_PER_LVS.
pub const UNITS_PER_LVS: f64 = 1000.0;

/// Integer tolerance (in length units) the monitor grants on real-space length facts
/// (step length, geodesic defect, coverage gaps, cost arithmetic): 2 units = lvs/500.
pub const REAL_TOL_UNITS: i64 = 2;

/// A query point counts as lying on a segment when d(a,x)+d(x,b)-d(a,b) is at most this
/// fraction of lvs (SO(3): acos near 1 amplifies 1 ulp to ~5e-8 rad, hence not tighter).
pub const ON_SEGMENT_FRAC: f64 = 1e-3;

/// Dense sampling step of the independent motion oracle, as a fraction of lvs.
pub const ORACLE_STEP_FRAC: f64 = 0.02;

pub fn describe() -> Vec<String> {
    vec![
        format!("ranking/threshold tie band: relative {REL_TIE:e} (inside it: inconclusive, never reported)"),
        format!("real-space length unit: lvs/{UNITS_PER_LVS}; monitor tolerance {REAL_TOL_UNITS} units"),
        format!("on-segment defect: {ON_SEGMENT_FRAC:e} * lvs"),
        format!("motion oracle sampling step: {ORACLE_STEP_FRAC} * lvs with a Lipschitz-1 clearance certificate"),
        "lattice traces: unit = 1/2 lattice step, tolerance 0 (exact)".to_string(),
    ]
}
