//! The annotator: turns the raw ordered log of one planner run into the integer / boolean trace
//! events that the TLC monitor (`spec/TraceMonitor.tla`) validates. Floats never reach TLC:
//! lengths become integers in the trace's unit, orderings become dense ranks, states become
//! intern ids. All logical rules live in the TLA+ monitor; this file only measures.

use crate::codec::{Bits, Interner};
use crate::drive::*;
use crate::geom::*;
use crate::instr::*;
use crate::tol;
use oxmpl::verif::Event;
use rand::{rngs::StdRng, Rng, RngCore, SeedableRng};
use serde_json::{json, Value};

#[derive(Clone)]
struct ShNode<S> {
    s: S,
    sid: usize,
    p: usize, // 1-based parent, 0 = root
    c: f64,
}

pub struct ProblemInfo<S> {
    /// the first start state (the one the pinned planners plan from)
    pub start: Option<S>,
    /// every start state of the problem definition (a planner may root its search at any of them)
    pub starts: Vec<S>,
    pub goal_sat: Box<dyn Fn(&S) -> bool>,
    /// is the goal reachable from the start through valid states? 0 no, 1 yes, 2 unknown
    pub feas: u8,
}

pub struct Annot<'a, S: Clone + Bits> {
    pub g: &'a dyn Geom<S>,
    pub kind: Kind,
    pub params: Params,
    pub intern: Interner,
    pub out: Vec<Value>,
    trees: Vec<Vec<ShNode<S>>>,
    accepted: Vec<(usize, S)>,
    acc_sids: std::collections::HashSet<usize>,
    mirror: Option<StdRng>,
    mirror_ok: bool,
    pd: Option<usize>,
    unit: f64,
    /// C04's precondition (start and every goal sample inside the bounds) holds for this run
    pub c04_precondition: bool,
    /// when the problem table is (problem definition x checker): number of checkers; entry index =
    /// pd * nvc + vc, and `set_problem_definition` replaces the pd part only
    pub nvc: Option<usize>,
}

fn dense_ranks(vals: &[f64]) -> Vec<i64> {
    // ranks with a relative tie band; NaN ranks last
    let mut idx: Vec<usize> = (0..vals.len()).collect();
    idx.sort_by(|a, b| vals[*a].partial_cmp(&vals[*b]).unwrap_or(std::cmp::Ordering::Equal));
    let mut ranks = vec![0i64; vals.len()];
    let mut r = 0i64;
    let mut last: Option<f64> = None;
    for i in idx {
        let v = vals[i];
        if let Some(l) = last {
            if (v - l).abs() > tol::REL_TIE * l.abs().max(v.abs()).max(1e-300) {
                r += 1;
            }
        }
        ranks[i] = r;
        last = Some(v);
    }
    ranks
}

/// 0: strictly below, 1: strictly above, 2: inside the tie band. On lattices (exact small
/// integers) there is no band: equal means equal, i.e. "not strictly below" (1).
fn cmp_band_x(x: f64, thr: f64, exact: bool) -> u8 {
    if exact {
        return if x < thr { 0 } else { 1 };
    }
    cmp_band(x, thr)
}
/// radius membership: 1 strictly inside, 0 strictly outside, 2 on the boundary (exactly equal on a
/// lattice, inside the tie band on a real space)
fn in_radius(d: f64, rad: f64, exact: bool) -> u8 {
    if exact {
        return if d < rad { 1 } else if d > rad { 0 } else { 2 };
    }
    match cmp_band(d, rad) {
        0 => 1,
        1 => 0,
        _ => 2,
    }
}
/// near/far decision of an extension: 0 = within one step (d <= maxd), 1 = beyond, 2 = in the band
fn far_of(d: f64, maxd: f64, exact: bool) -> u8 {
    if exact {
        return if d > maxd { 1 } else { 0 };
    }
    cmp_band(d, maxd)
}
fn cmp_band(x: f64, thr: f64) -> u8 {
    if (x - thr).abs() <= tol::REL_TIE * x.abs().max(thr.abs()) {
        2
    } else if x < thr {
        0
    } else {
        1
    }
}

fn draws_match(mirror: &mut StdRng, draws: &[Draw]) -> bool {
    let mut ok = true;
    for d in draws {
        match d {
            Draw::U32(v) => ok &= mirror.next_u32() == *v,
            Draw::U64(v) => ok &= mirror.next_u64() == *v,
            Draw::Fill(b) => {
                let mut buf = vec![0u8; b.len()];
                mirror.fill_bytes(&mut buf);
                ok &= &buf == b;
            }
        }
    }
    ok
}

impl<'a, S: Clone + Bits> Annot<'a, S> {
    pub fn new(g: &'a dyn Geom<S>, kind: Kind, params: Params) -> Self {
        let mirror = params.seed.map(StdRng::seed_from_u64);
        let unit = g.unit();
        Annot {
            g,
            kind,
            params,
            intern: Interner::new(),
            out: Vec::new(),
            trees: vec![Vec::new(), Vec::new()],
            accepted: Vec::new(),
            acc_sids: Default::default(),
            mirror,
            mirror_ok: true,
            pd: None,
            unit,
            c04_precondition: true,
            nvc: None,
        }
    }

    fn u(&self, x: f64) -> i64 {
        to_units(x, self.unit)
    }

    fn bias_str(&self) -> &'static str {
        if self.params.bias == 0.0 {
            "0"
        } else if self.params.bias == 1.0 {
            "1"
        } else {
            "p"
        }
    }

    /// Switches the geometry (space / world) the following calls are measured with: used when a
    /// run re-installs a problem on a different space. Lengths are re-expressed in the new unit.
    pub fn set_geom(&mut self, g: &'a dyn Geom<S>) {
        self.g = g;
        self.unit = g.unit();
    }

    pub fn reset(&mut self, run: usize, desc: Value) {
        let lvs = self.g.lvs();
        let ev = json!({
            "ev": "reset", "run": run, "planner": self.kind.name(), "mode": self.g.mode(),
            "space": self.g.name(),
            "lvs": self.u(lvs), "maxd": self.u(self.params.maxd), "rad": self.u(self.params.radius),
            "tol": self.g.tol_units(), "bias": self.bias_str(), "seeded": self.params.seed.is_some(),
            "desc": desc,
        });
        self.out.push(ev);
    }

    /// accepted query positions (units) along a -> b, ascending, de-duplicated
    fn coverage(&self, a: &S, b: &S) -> (Vec<i64>, i64) {
        let len = self.u(self.g.dist(a, b));
        let mut pos: Vec<i64> = Vec::new();
        for (_, x) in &self.accepted {
            if let Some(p) = self.g.on_segment(a, b, x) {
                pos.push(self.u(p));
            }
        }
        pos.sort();
        pos.dedup();
        (pos, len)
    }

    fn note_valid(&mut self, s: &S, ans: bool, newacc: &mut Vec<usize>) {
        if ans {
            let sid = self.intern.id(s);
            if self.acc_sids.insert(sid) {
                self.accepted.push((sid, s.clone()));
            }
            if !newacc.contains(&sid) {
                newacc.push(sid);
            }
        }
    }

    fn snapshot_json(&mut self, snap: &Snapshot<S>) -> Value {
        match snap {
            Snapshot::Trees(ts) => {
                let mut arr = Vec::new();
                for t in ts {
                    let mut nodes = Vec::new();
                    for (s, p, c) in t {
                        let sid = self.intern.id(s);
                        nodes.push(json!({"s": sid, "p": p.map(|x| x + 1).unwrap_or(0), "c": self.u(*c)}));
                    }
                    arr.push(Value::Array(nodes));
                }
                json!({"trees": arr, "roadmap": []})
            }
            Snapshot::Roadmap(r) => {
                let mut nodes = Vec::new();
                for (s, e) in r {
                    let sid = self.intern.id(s);
                    let es: Vec<usize> = e.iter().map(|x| x + 1).collect();
                    nodes.push(json!({"s": sid, "e": es}));
                }
                json!({"trees": [], "roadmap": nodes})
            }
        }
    }

    fn outcome_kind(o: &Outcome<S>) -> (&'static str, String, String) {
        match o {
            Outcome::Unit => ("unit", String::new(), String::new()),
            Outcome::Path(_) => ("ok", String::new(), String::new()),
            Outcome::Err(k) => (k, String::new(), String::new()),
            Outcome::Panic { msg, loc } => {
                if msg.contains(ABORT_MARKER) {
                    ("abort", loc.clone(), msg.clone())
                } else if msg.contains(QUERY_CAP_MARKER) {
                    ("querycap", loc.clone(), msg.clone())
                } else {
                    ("panic", loc.clone(), msg.clone())
                }
            }
        }
    }

    /// Extension facts for "a node `new` was (or was not) hung in `tree` toward `tgt`".
    /// `pushed`: Some((parent idx 0-based, state)) when a node was added.
    fn ext_record(&mut self, tr: usize, tgt: &S, pushed: Option<(usize, S)>, star: bool) -> Value {
        let g = self.g;
        let tree = self.trees[tr].clone();
        let n = tree.len();
        let tgt_sid = self.intern.id(tgt);
        let ds: Vec<f64> = tree.iter().map(|nd| g.dist(&nd.s, tgt)).collect();
        let dr = dense_ranks(&ds);
        let minr = dr.iter().cloned().min().unwrap_or(0);
        let argmin: Vec<usize> = (0..n).filter(|i| dr[*i] == minr).collect();
        let maxd = self.params.maxd;
        let exact = g.mode() == "lattice";
        let steer = |m: usize| -> (u8, S) {
            let far = far_of(ds[m], maxd, exact);
            let s = if ds[m] > maxd { g.interp(&tree[m].s, tgt, maxd / ds[m]) } else { tgt.clone() };
            (far, s)
        };
        match pushed {
            Some((par, new)) => {
                let new_sid = self.intern.id(&new);
                // the nearest node the extension is measured from: the parent for plain trees;
                // for RRT* (parent may be any neighbour) the ArgMin member that explains `new` best
                let near = if !star {
                    par
                } else {
                    // ties among nearest nodes: any of them may have been used; among those that explain
                    // `new` equally well prefer one whose motion is not certainly blocked
                    let mut best = argmin.first().cloned().unwrap_or(0);
                    let mut bestkey: Option<(f64, bool)> = None;
                    for m in &argmin {
                        let (_, s) = steer(*m);
                        let dd = g.dist(&s, &new);
                        let blocked = g.oracle(&tree[*m].s, &new) == BLOCKED;
                        let better = match bestkey {
                            None => true,
                            Some((bd, bb)) => {
                                let eps = 1e-12 * bd.abs().max(dd.abs()).max(1e-300);
                                dd < bd - eps || ((dd - bd).abs() <= eps && bb && !blocked)
                            }
                        };
                        if better {
                            bestkey = Some((dd, blocked));
                            best = *m;
                        }
                    }
                    best
                };
                let far = if near < n { far_of(ds[near], maxd, exact) } else { 2 };
                let (step, gd, orc, cov, len) = if near < n {
                    let a = &tree[near].s;
                    let step = g.dist(a, &new);
                    let gd = step + g.dist(&new, tgt) - ds[near];
                    let (cov, len) = self.coverage(a, &new);
                    (self.u(step), self.u(gd.abs()), g.oracle(a, &new), cov, len)
                } else {
                    (0, 0, UNKNOWN, vec![], 0)
                };
                json!({"tr": tr + 1, "tgt": tgt_sid, "dr": dr, "far": far, "add": true, "near": near + 1,
                       "new": new_sid, "nv": g.valid(&new), "isq": new.bits() == tgt.bits(), "step": step, "gd": gd,
                       "cov": cov, "len": len, "orc": orc, "n": n})
            }
            None => {
                // nothing was added: what does the oracle say about the motions a conforming
                // implementation could have attempted (from any nearest node)?
                let mut all_free = !argmin.is_empty();
                let mut all_blocked = !argmin.is_empty();
                let mut zero = false;
                for m in &argmin {
                    let (_, s) = steer(*m);
                    if ds[*m] == 0.0 {
                        zero = true;
                    }
                    let o = g.oracle(&tree[*m].s, &s);
                    all_free &= o == FREE;
                    all_blocked &= o == BLOCKED;
                }
                let orc = if all_free && !zero { FREE } else if all_blocked { BLOCKED } else { UNKNOWN };
                let far = argmin.first().map(|m| far_of(ds[*m], maxd, exact)).unwrap_or(2);
                json!({"tr": tr + 1, "tgt": tgt_sid, "dr": dr, "far": far, "add": false, "near": 0,
                       "new": 0, "nv": true, "isq": false, "step": 0, "gd": 0, "cov": [], "len": 0, "orc": orc, "n": n})
            }
        }
    }

    fn star_record(&mut self, new_idx: usize, rewires: &[(usize, usize, f64)], pre: &[ShNode<S>]) -> Value {
        // `pre`: the tree before the push; self.trees[0] already contains the new node and
        // the rewires have NOT yet been applied to it.
        let g = self.g;
        let newn = self.trees[0][new_idx].clone();
        let exact = g.mode() == "lattice";
        let n = pre.len();
        let rad = self.params.radius;
        let dnew: Vec<f64> = pre.iter().map(|nd| g.dist(&newn.s, &nd.s)).collect();
        let inr: Vec<u8> = dnew
            .iter()
            .map(|d| in_radius(*d, rad, exact))
            .collect();
        let ccf: Vec<f64> = (0..n).map(|i| pre[i].c + dnew[i]).collect();
        let cc: Vec<i64> = ccf.iter().map(|c| self.u(*c)).collect();
        let ccr = dense_ranks(&ccf);
        let orc: Vec<u8> = (0..n).map(|i| g.oracle(&pre[i].s, &newn.s)).collect();
        let par = newn.p - 1;
        let ceq = par < n && {
            let want = pre[par].c + g.dist(&newn.s, &pre[par].s);
            (want - newn.c).abs() <= tol::REL_TIE * want.abs().max(1e-300) || want == newn.c
        };
        let (pcov, plen) = if par < n { self.coverage(&pre[par].s, &newn.s) } else { (vec![], 0) };
        let pstep = if par < n { self.u(dnew[par]) } else { 0 };
        // rewiring candidates: cost through the new node
        let mut rws = Vec::new();
        let mut rwo = Vec::new();
        for i in 0..n {
            let via = newn.c + dnew[i];
            let s = match cmp_band_x(via, pre[i].c, exact) {
                0 => 1u8,
                1 => 0u8,
                _ => 2u8,
            };
            rws.push(s);
            rwo.push(g.oracle(&newn.s, &pre[i].s));
        }
        let mut rew = Vec::new();
        for (idx, parent, cost) in rewires {
            let i = *idx;
            if i < n {
                let want = newn.c + dnew[i];
                let ceq = (want - cost).abs() <= tol::REL_TIE * want.abs().max(1e-300) || want == *cost;
                let (cov, len) = self.coverage(&newn.s, &pre[i].s);
                rew.push(json!({"i": i + 1, "par": parent + 1, "c": self.u(*cost), "ceq": ceq,
                                "cov": cov, "len": len, "d": self.u(dnew[i])}));
            } else {
                rew.push(json!({"i": i + 1, "par": parent + 1, "c": self.u(*cost), "ceq": false,
                                "cov": [], "len": 0, "d": 0}));
            }
        }
        json!({"on": true, "inr": inr, "cc": cc, "ccr": ccr, "orc": orc, "par": par + 1, "pcost": self.u(newn.c),
               "ceq": ceq, "pstep": pstep, "pcov": pcov, "plen": plen, "rws": rws, "rwo": rwo, "rew": rew,
               "oldc": pre.iter().map(|x| self.u(x.c)).collect::<Vec<_>>() })
    }

    fn no_star() -> Value {
        json!({"on": false, "inr": [], "cc": [], "ccr": [], "orc": [], "par": 0, "pcost": 0, "ceq": true,
               "pstep": 0, "pcov": [], "plen": 0, "rws": [], "rwo": [], "rew": [], "oldc": []})
    }

    fn state_of(snap: &Snapshot<S>, tr: usize, idx: usize) -> Option<S> {
        if let Snapshot::Trees(ts) = snap {
            ts.get(tr).and_then(|t| t.get(idx)).map(|x| x.0.clone())
        } else {
            None
        }
    }

    /// Annotates one API call of a tree planner or PRM.
    pub fn call(&mut self, rec: &CallRec<S>, problems: &[ProblemInfo<S>]) {
        match (&rec.call, self.kind) {
            (Call::Setup(i), _) => self.setup(rec, *i, problems),
            (Call::SetPd(i), _) => {
                self.pd = Some(match (self.nvc, self.pd) {
                    (Some(n), Some(cur)) => (*i / n) * n + cur % n,
                    _ => *i,
                });
                let (k, site, _) = Self::outcome_kind(&rec.outcome);
                // (the new problem may live on another space: resolution and length unit are re-stated)
                let (hl, hm, hr) = (self.u(self.g.lvs()), self.u(self.params.maxd), self.u(self.params.radius));
                self.out.push(json!({"ev": "setpd", "pd": i + 1, "kind": k, "site": site, "lvs": hl, "maxd": hm, "rad": hr}));
            }
            (Call::SetParams(p), _) => {
                // the public parameter fields were assigned: every later expectation uses the new values
                self.params = Params { seed: self.params.seed, ..p.clone() };
                let (k, site, _) = Self::outcome_kind(&rec.outcome);
                let (hm, hr) = (self.u(self.params.maxd), self.u(self.params.radius));
                self.out.push(json!({"ev": "setparams", "kind": k, "site": site, "maxd": hm, "rad": hr, "bias": self.bias_str()}));
            }
            (Call::Solve(t), Kind::Prm) | (Call::SolveTicking(t), Kind::Prm) => self.prm_solve(rec, *t, problems),
            (Call::Solve(t), _) | (Call::SolveTicking(t), _) => self.tree_solve(rec, *t, problems),
            (Call::Construct, _) => self.prm_construct(rec),
        }
    }

    fn setup(&mut self, rec: &CallRec<S>, i: usize, problems: &[ProblemInfo<S>]) {
        self.pd = Some(i);
        self.trees = vec![Vec::new(), Vec::new()];
        self.accepted.clear();
        self.acc_sids.clear();
        let mut roots = Vec::new();
        let mut draws_seen = false;
        let mut meq = true;
        for r in &rec.raw {
            match r {
                Raw::Hook(Event::Push { tree, idx, parent: _, cost }) => {
                    let tr = *tree as usize;
                    if let Some(s) = Self::state_of(&rec.snap, tr, *idx) {
                        let sid = self.intern.id(&s);
                        let is_start = problems[i].starts.iter().any(|st| st.bits() == s.bits());
                        let is_goal = (problems[i].goal_sat)(&s);
                        roots.push(json!({"tr": tr + 1, "s": sid, "isstart": is_start, "isgoal": is_goal,
                                          "valid": self.g.valid(&s), "inb": self.g.in_bounds(&s)}));
                        self.trees[tr].push(ShNode { s, sid, p: 0, c: *cost });
                    }
                }
                Raw::SampleGoal(_, _, draws) | Raw::SampleUniform(_, _, draws) => {
                    if !draws.is_empty() {
                        draws_seen = true;
                        if let Some(m) = self.mirror.as_mut() {
                            let ok = draws_match(m, draws);
                            meq &= ok;
                            self.mirror_ok &= ok;
                        }
                    }
                }
                _ => {}
            }
        }
        // a roadmap that survives setup must be right for the problem and checker just installed: a
        // milestone the new checker rejects or the new bounds exclude, or a link the new checker certainly
        // blocks, makes every later answer a stale one
        let mut stale = false;
        if let Snapshot::Roadmap(r) = &rec.snap {
            for (s, es) in r {
                if !self.g.valid(s) || !self.g.in_bounds(s) {
                    stale = true;
                }
                for e in es {
                    if let Some((o, _)) = r.get(*e) {
                        if self.g.oracle(s, o) == BLOCKED {
                            stale = true;
                        }
                    }
                }
            }
        }
        let (k, site, msg) = Self::outcome_kind(&rec.outcome);
        let snap = self.snapshot_json(&rec.snap);
        let meqv = if !draws_seen || self.mirror.is_none() { 2 } else if meq { 1 } else { 0 };
        let (hl, hm, hr) = (self.u(self.g.lvs()), self.u(self.params.maxd), self.u(self.params.radius));
        self.out.push(json!({"ev": "setup", "pd": i + 1, "kind": k, "site": site, "msg": msg, "roots": roots,
                             "meq": meqv, "snap": snap, "lvs": hl, "maxd": hm, "rad": hr, "stale": stale}));
    }

    fn tree_solve(&mut self, rec: &CallRec<S>, t: u64, problems: &[ProblemInfo<S>]) {
        let star = self.kind == Kind::Star;
        let conn = self.kind == Kind::Conn;
        self.out.push(json!({"ev": "solve", "T": t, "pdset": self.pd.is_some()}));
        // split the raw log into a prologue and iterations (one sampler call each)
        let mut pre: Vec<&Raw<S>> = Vec::new();
        let mut iters: Vec<Vec<&Raw<S>>> = Vec::new();
        for r in &rec.raw {
            match r {
                Raw::SampleUniform(..) | Raw::SampleGoal(..) => iters.push(vec![r]),
                _ => {
                    if let Some(l) = iters.last_mut() {
                        l.push(r)
                    } else {
                        pre.push(r)
                    }
                }
            }
        }
        let mut newacc = Vec::new();
        for r in pre {
            if let Raw::IsValid(s, a) = r {
                self.note_valid(s, *a, &mut newacc);
            }
        }
        if !newacc.is_empty() {
            self.out.push(json!({"ev": "pre", "newacc": newacc}));
        }
        let bias = self.params.bias;
        for it in iters {
            let (res, t0, draws, kind) = match it[0] {
                Raw::SampleUniform(r, t0, d) => (r, *t0, d, "u"),
                Raw::SampleGoal(r, t0, d) => (r, *t0, d, "g"),
                _ => unreachable!(),
            };
            // mirror: Bernoulli word, then the sampler's own draws
            let mut pred = "?";
            let mut meq = 2;
            if (0.0..=1.0).contains(&bias) {
                if bias == 0.0 {
                    pred = "u";
                }
                if bias == 1.0 {
                    pred = "g";
                }
                if let Some(m) = self.mirror.as_mut() {
                    let b = m.random_bool(bias);
                    let ok = draws_match(m, draws);
                    if !draws.is_empty() {
                        meq = if ok { 1 } else { 0 };
                    }
                    self.mirror_ok &= ok || draws.is_empty();
                    if self.mirror_ok && !draws.is_empty() && ok && bias > 0.0 && bias < 1.0 {
                        pred = if b { "g" } else { "u" };
                    }
                }
            }
            let elapsed = (t0 - rec.t_begin) / TICK_NS;
            let sizes = vec![self.trees[0].len(), self.trees[1].len()];
            let q = match res {
                Ok(s) => s.clone(),
                Err(e) => {
                    self.out.push(json!({"ev": "iter", "t": elapsed, "k": "x", "q": 0, "pred": pred, "meq": meq,
                        "sizes": sizes, "newacc": [], "ext": [], "star": Self::no_star(), "gt": 2, "npush": [0, 0],
                        "err": e, "skind": kind}));
                    continue;
                }
            };
            let qsid = self.intern.id(&q);
            let mut newacc = Vec::new();
            let mut pushes: Vec<(usize, usize, Option<usize>, f64)> = Vec::new();
            let mut rewires: Vec<(usize, usize, f64)> = Vec::new();
            let mut gt = 2;
            for r in &it[1..] {
                match r {
                    Raw::IsValid(s, a) => self.note_valid(s, *a, &mut newacc),
                    Raw::Hook(Event::Push { tree, idx, parent, cost }) => {
                        pushes.push((*tree as usize, *idx, *parent, *cost))
                    }
                    Raw::Hook(Event::Rewire { idx, parent, cost }) => rewires.push((*idx, *parent, *cost)),
                    Raw::IsSatisfied(_, a) => gt = if *a { 1 } else { 0 },
                    _ => {}
                }
            }
            let mut npush = [0usize, 0usize];
            for p in &pushes {
                npush[p.0.min(1)] += 1;
            }
            let mut ext = Vec::new();
            let mut starv = Self::no_star();
            if !conn {
                if let Some((tr, idx, parent, cost)) = pushes.first().cloned() {
                    let new = Self::state_of(&rec.snap, tr, idx);
                    if let (Some(new), Some(par)) = (new, parent) {
                        let pre_tree = self.trees[0].clone();
                        ext.push(self.ext_record(0, &q, Some((par, new.clone())), star));
                        let sid = self.intern.id(&new);
                        self.trees[0].push(ShNode { s: new, sid, p: par + 1, c: cost });
                        if star {
                            starv = self.star_record(idx, &rewires, &pre_tree);
                            for (i, p, c) in &rewires {
                                if *i < self.trees[0].len() {
                                    self.trees[0][*i].p = p + 1;
                                    self.trees[0][*i].c = *c;
                                }
                            }
                        }
                    }
                } else {
                    ext.push(self.ext_record(0, &q, None, star));
                }
            } else {
                // RRT-Connect: first extension toward q on the grown tree, then one extension of
                // the other tree toward the new node
                if let Some((tr, idx, parent, _)) = pushes.first().cloned() {
                    let new = Self::state_of(&rec.snap, tr, idx);
                    if let (Some(new), Some(par)) = (new, parent) {
                        ext.push(self.ext_record(tr, &q, Some((par, new.clone())), false));
                        let sid = self.intern.id(&new);
                        self.trees[tr].push(ShNode { s: new.clone(), sid, p: par + 1, c: 0.0 });
                        let other = 1 - tr;
                        let direct = tr == 0 && gt == 1;
                        if let Some((tr2, idx2, parent2, _)) = pushes.get(1).cloned() {
                            let new2 = Self::state_of(&rec.snap, tr2, idx2);
                            if let (Some(new2), Some(par2)) = (new2, parent2) {
                                ext.push(self.ext_record(tr2, &new, Some((par2, new2.clone())), false));
                                let sid2 = self.intern.id(&new2);
                                self.trees[tr2].push(ShNode { s: new2, sid: sid2, p: par2 + 1, c: 0.0 });
                            }
                        } else if !direct && !self.trees[other].is_empty() {
                            ext.push(self.ext_record(other, &new, None, false));
                        }
                    }
                } else {
                    // nothing grown: a conforming implementation grows a smaller-or-equal tree
                    let (n0, n1) = (self.trees[0].len(), self.trees[1].len());
                    if n0 <= n1 && n0 > 0 {
                        ext.push(self.ext_record(0, &q, None, false));
                    }
                    if n1 <= n0 && n1 > 0 && n0 != n1 {
                        ext.push(self.ext_record(1, &q, None, false));
                    }
                    if n0 == n1 && n0 > 0 {
                        // either tree may have been tried: only conclusive when both agree
                        let a = ext.pop().unwrap();
                        let b = self.ext_record(1, &q, None, false);
                        let oa = a["orc"].as_u64().unwrap();
                        let ob = b["orc"].as_u64().unwrap();
                        let mut m = a.clone();
                        m["orc"] = json!(if oa == ob { oa } else { 2 });
                        m["tr"] = json!(0);
                        ext.push(m);
                    }
                }
            }
            let _ = problems;
            self.out.push(json!({"ev": "iter", "t": elapsed, "k": kind, "q": qsid, "pred": pred, "meq": meq,
                "sizes": sizes, "newacc": newacc, "ext": ext, "star": starv, "gt": gt, "npush": npush,
                "err": "", "skind": kind}));
        }
        self.ret_event(rec, t, problems);
    }

    fn ret_event(&mut self, rec: &CallRec<S>, t: u64, problems: &[ProblemInfo<S>]) {
        let (k, site, msg) = Self::outcome_kind(&rec.outcome);
        let mut path = Vec::new();
        let mut pvalid = Vec::new();
        let mut pinb = Vec::new();
        let mut plen = Vec::new();
        let mut first_is_start = false;
        let mut last_goal = false;
        let mut start_valid = true;
        let mut start_inb = true;
        let mut feas = 2u8;
        let mut start_valid_all = true;
        if let Some(i) = self.pd {
            feas = problems[i].feas;
            if !problems[i].starts.is_empty() {
                // "an invalid start is reported": with several start states a planner must refuse only when
                // none is usable, and may refuse as soon as one is not
                start_valid = problems[i].starts.iter().any(|st| self.g.valid(st));
                start_valid_all = problems[i].starts.iter().all(|st| self.g.valid(st));
                start_inb = problems[i].starts.iter().all(|st| self.g.in_bounds(st));
            } else {
                // an empty start list: any error is a fine answer, InvalidStartState included
                start_valid_all = false;
            }
        }
        if let Outcome::Path(p) = &rec.outcome {
            for s in p {
                path.push(self.intern.id(s));
                pvalid.push(self.g.valid(s));
                pinb.push(self.g.in_bounds(s));
            }
            for w in p.windows(2) {
                plen.push(self.u(self.g.dist(&w[0], &w[1])));
            }
            if let Some(i) = self.pd {
                if let Some(f) = p.first() {
                    first_is_start = problems[i].starts.iter().any(|st| st.bits() == f.bits());
                }
                if let Some(l) = p.last() {
                    last_goal = (problems[i].goal_sat)(l);
                }
            }
        }
        let snap = self.snapshot_json(&rec.snap);
        let elapsed = (rec.t_end - rec.t_begin) / TICK_NS;
        self.out.push(json!({"ev": "ret", "kind": k, "site": site, "msg": msg, "path": path, "pvalid": pvalid,
            "pinb": pinb, "plen": plen, "first_is_start": first_is_start, "last_goal": last_goal,
            "start_valid": start_valid, "start_valid_all": start_valid_all, "start_inb": start_inb && self.c04_precondition, "t": elapsed, "T": t, "snap": snap, "feas": feas}));
    }

    // ------------------------------------------------------------------------------------- PRM

    fn prm_construct(&mut self, rec: &CallRec<S>) {
        let before: usize = match self.trees.first() {
            _ => self.accepted.len(),
        };
        let _ = before;
        self.out.push(json!({"ev": "construct", "T": self.params.build_ticks, "pdset": self.pd.is_some()}));
        let road = match &rec.snap {
            Snapshot::Roadmap(r) => r.clone(),
            _ => vec![],
        };
        // milestones known before this call (shadow roadmap kept in trees[0] as nodes)
        let mut n_before = self.trees[0].len();
        // group raw into samples
        let mut groups: Vec<Vec<&Raw<S>>> = Vec::new();
        for r in &rec.raw {
            match r {
                Raw::SampleUniform(..) | Raw::SampleGoal(..) => groups.push(vec![r]),
                _ => {
                    if let Some(l) = groups.last_mut() {
                        l.push(r)
                    }
                }
            }
        }
        for gr in groups {
            let (res, t0, draws) = match gr[0] {
                Raw::SampleUniform(r, t0, d) | Raw::SampleGoal(r, t0, d) => (r, *t0, d),
                _ => unreachable!(),
            };
            let mut meq = 2;
            if let Some(m) = self.mirror.as_mut() {
                if !draws.is_empty() {
                    let ok = draws_match(m, draws);
                    meq = if ok { 1 } else { 0 };
                    self.mirror_ok &= ok;
                }
            }
            let elapsed = (t0 - rec.t_begin) / TICK_NS;
            let q = match res {
                Ok(s) => s.clone(),
                Err(e) => {
                    self.out.push(json!({"ev": "psample", "t": elapsed, "q": 0, "meq": meq, "asked": false,
                        "valid": false, "pushed": false, "links": [], "newacc": [], "err": e}));
                    continue;
                }
            };
            let qsid = self.intern.id(&q);
            let mut newacc = Vec::new();
            let mut first_valid: Option<bool> = None;
            for r in &gr[1..] {
                if let Raw::IsValid(s, a) = r {
                    if first_valid.is_none() && s.bits() == q.bits() {
                        first_valid = Some(*a);
                    }
                    self.note_valid(s, *a, &mut newacc);
                }
            }
            let truth = self.g.valid(&q);
            // was it pushed? the next roadmap entry (by index) must be this state
            let pushed = road.get(n_before).map(|(s, _)| s.bits() == q.bits()).unwrap_or(false);
            let mut links = Vec::new();
            if pushed {
                let me = n_before;
                let edges: std::collections::HashSet<usize> = road[me].1.iter().cloned().collect();
                for i in 0..me {
                    let other = &road[i].0;
                    let d = self.g.dist(&q, other);
                    let inr = in_radius(d, self.params.radius, self.g.mode() == "lattice");
                    let linked = edges.contains(&i);
                    let orc = if inr != 0 || linked { self.g.oracle(&q, other) } else { UNKNOWN };
                    let (cov, len) = if linked { self.coverage(&q, other) } else { (vec![], 0) };
                    links.push(json!({"i": i + 1, "inr": inr, "orc": orc, "linked": linked, "cov": cov, "len": len,
                                      "d": self.u(d)}));
                }
                self.trees[0].push(ShNode { s: q.clone(), sid: qsid, p: 0, c: 0.0 });
                n_before += 1;
            }
            self.out.push(json!({"ev": "psample", "t": elapsed, "q": qsid, "meq": meq, "asked": first_valid.is_some(),
                "valid": truth, "pushed": pushed, "links": links, "newacc": newacc, "err": ""}));
        }
        let (k, site, msg) = Self::outcome_kind(&rec.outcome);
        let snap = self.snapshot_json(&rec.snap);
        let elapsed = (rec.t_end - rec.t_begin) / TICK_NS;
        self.out.push(json!({"ev": "cret", "kind": k, "site": site, "msg": msg, "t": elapsed,
                             "T": self.params.build_ticks, "snap": snap}));
    }

    fn prm_solve(&mut self, rec: &CallRec<S>, t: u64, problems: &[ProblemInfo<S>]) {
        self.out.push(json!({"ev": "solve", "T": t, "pdset": self.pd.is_some()}));
        let mut newacc = Vec::new();
        for r in &rec.raw {
            if let Raw::IsValid(s, a) = r {
                self.note_valid(s, *a, &mut newacc);
            }
        }
        let road = match &rec.snap {
            Snapshot::Roadmap(r) => r.clone(),
            _ => vec![],
        };
        let mut sc = Vec::new();
        let mut goalf = Vec::new();
        if let Some(i) = self.pd {
            let from_path = match &rec.outcome {
                Outcome::Path(p) => p.first().and_then(|f| problems[i].starts.iter().find(|st| st.bits() == f.bits()).cloned()),
                _ => None,
            };
            // (no path: judge from the first listed start the checker accepts - with an invalid first start
            // the pinned planner has already refused, a multi-start one would have queried from this one)
            let first_valid = problems[i].starts.iter().find(|st| self.g.valid(st)).cloned();
            if let Some(st) = from_path.or(first_valid).or(problems[i].start.clone()) {
                for (m, _) in &road {
                    let d = self.g.dist(&st, m);
                    let inr = in_radius(d, self.params.radius, self.g.mode() == "lattice");
                    let orc = if inr != 0 { self.g.oracle(&st, m) } else { UNKNOWN };
                    let (cov, len) = if inr != 0 { self.coverage(&st, m) } else { (vec![], 0) };
                    sc.push(json!({"inr": inr, "orc": orc, "cov": cov, "len": len, "d": self.u(d)}));
                    goalf.push((problems[i].goal_sat)(m));
                }
            }
        }
        // map path states to milestone indices (after the first state)
        let mut pidx = Vec::new();
        if let Outcome::Path(p) = &rec.outcome {
            // duplicates of a state may exist in the roadmap: choose, if one exists, an index
            // chain that follows roadmap edges (the monitor re-checks the chain it is given)
            let cands: Vec<Vec<usize>> = p
                .iter()
                .skip(1)
                .map(|s| {
                    let b = s.bits();
                    (0..road.len()).filter(|i| road[*i].0.bits() == b).collect()
                })
                .collect();
            let k = cands.len();
            // back[j][c] = Some(previous candidate) when position j can be reached at candidate c
            let mut ok: Vec<Vec<Option<usize>>> = Vec::new();
            for j in 0..k {
                let mut row = vec![None; cands[j].len()];
                for (ci, c) in cands[j].iter().enumerate() {
                    if j == 0 {
                        row[ci] = Some(usize::MAX);
                    } else {
                        for (pi, pc) in cands[j - 1].iter().enumerate() {
                            if ok[j - 1][pi].is_some() && road[*pc].1.contains(c) {
                                row[ci] = Some(pi);
                                break;
                            }
                        }
                    }
                }
                ok.push(row);
            }
            let mut chain: Vec<usize> = Vec::new();
            if k > 0 {
                if let Some(mut ci) = ok[k - 1].iter().position(|x| x.is_some()) {
                    let mut rev = Vec::new();
                    for j in (0..k).rev() {
                        rev.push(cands[j][ci] + 1);
                        if j > 0 {
                            ci = ok[j][ci].unwrap();
                        }
                    }
                    rev.reverse();
                    chain = rev;
                }
            }
            if chain.len() == k {
                pidx = chain;
            } else {
                pidx = cands.iter().map(|c| c.first().map(|x| x + 1).unwrap_or(0)).collect();
            }
        }
        self.out.push(json!({"ev": "query", "newacc": newacc, "sc": sc, "goalf": goalf, "pidx": pidx}));
        self.ret_event(rec, t, problems);
    }
}
