//! Bitwise state identity: states are interned per run by their exact bit pattern; floats never
//! reach TLC, only the intern ids (`sid`, 1-based).

use crate::lattice::LState;
use oxmpl::base::state::{
    CompoundState, RealVectorState, SE2State, SE3State, SO2State, SO3State, State,
};
use std::any::Any;
use std::collections::HashMap;

pub trait Bits {
    fn bits(&self) -> Vec<u64>;
}

impl Bits for LState {
    fn bits(&self) -> Vec<u64> {
        vec![self.0 as u64]
    }
}
impl Bits for RealVectorState {
    fn bits(&self) -> Vec<u64> {
        self.values.iter().map(|v| v.to_bits()).collect()
    }
}
impl Bits for SO2State {
    fn bits(&self) -> Vec<u64> {
        vec![self.value.to_bits()]
    }
}
impl Bits for SO3State {
    fn bits(&self) -> Vec<u64> {
        vec![self.x.to_bits(), self.y.to_bits(), self.z.to_bits(), self.w.to_bits()]
    }
}
pub fn dyn_bits(s: &dyn State) -> Vec<u64> {
    let a: &dyn Any = s.as_any();
    if let Some(x) = a.downcast_ref::<RealVectorState>() {
        let mut v = vec![0xA1, x.values.len() as u64];
        v.extend(x.bits());
        v
    } else if let Some(x) = a.downcast_ref::<SO2State>() {
        let mut v = vec![0xA2];
        v.extend(x.bits());
        v
    } else if let Some(x) = a.downcast_ref::<SO3State>() {
        let mut v = vec![0xA3];
        v.extend(x.bits());
        v
    } else if let Some(x) = a.downcast_ref::<CompoundState>() {
        let mut v = vec![0xA4, x.components.len() as u64];
        v.extend(x.bits());
        v
    } else if let Some(x) = a.downcast_ref::<SE2State>() {
        x.bits()
    } else if let Some(x) = a.downcast_ref::<SE3State>() {
        x.bits()
    } else {
        panic!("dyn_bits: unknown state type")
    }
}
impl Bits for CompoundState {
    fn bits(&self) -> Vec<u64> {
        let mut v = Vec::new();
        for c in &self.components {
            v.extend(dyn_bits(&**c));
        }
        v
    }
}
impl Bits for SE2State {
    fn bits(&self) -> Vec<u64> {
        self.0.bits()
    }
}
impl Bits for SE3State {
    fn bits(&self) -> Vec<u64> {
        self.0.bits()
    }
}

/// Human-readable rendering for replay files and evidence samples.
pub fn show_bits(b: &[u64]) -> String {
    let parts: Vec<String> = b
        .iter()
        .map(|w| {
            if *w < 0x1000 {
                format!("#{w}")
            } else {
                format!("{:?}", f64::from_bits(*w))
            }
        })
        .collect();
    format!("[{}]", parts.join(","))
}

#[derive(Default)]
pub struct Interner {
    map: HashMap<Vec<u64>, usize>,
    pub list: Vec<Vec<u64>>,
}
impl Interner {
    pub fn new() -> Self {
        Self::default()
    }
    /// 1-based id
    pub fn id<S: Bits>(&mut self, s: &S) -> usize {
        let b = s.bits();
        if let Some(i) = self.map.get(&b) {
            *i
        } else {
            self.list.push(b.clone());
            let i = self.list.len();
            self.map.insert(b, i);
            i
        }
    }
}
