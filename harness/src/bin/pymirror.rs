//! Rust-core mirror of the Python scenarios (C19): the same problems, parameters, seeds and
//! bit-identical callbacks run directly on the core; every callback record is hashed exactly as
//! py/pydrive.py does, so that the two streams can be compared call by call.
//!
//!   pymirror --scenarios sc.json --out rust_runs.ndjson

use oxmpl::base::{
    error::StateSamplingError,
    space::{
        CompoundStateSpace, RealVectorStateSpace, SE2StateSpace, SE3StateSpace, SO2StateSpace, SO3StateSpace,
        StateSpace,
    },
    state::{CompoundState, RealVectorState, SE2State, SE3State, SO2State, SO3State, State},
};
use rand::RngCore;
use serde_json::{json, Value};
use std::cell::Cell;
use std::io::Write;
use std::rc::Rc;
use vharness::drive::*;
use vharness::instr::{HGoal, Raw};

const PI: f64 = std::f64::consts::PI;

fn h30(s: &str) -> u64 {
    let mut h: u64 = 0xcbf29ce484222325;
    for c in s.as_bytes() {
        h ^= *c as u64;
        h = h.wrapping_mul(0x100000001b3);
    }
    (h ^ (h >> 30) ^ (h >> 60)) & 0x3FFF_FFFF
}

fn rec(kind: &str, fl: &[f64], ans: Option<u8>) -> u64 {
    let mut s = format!("{kind}|{}", fl.iter().map(|x| x.to_bits().to_string()).collect::<Vec<_>>().join(","));
    if let Some(a) = ans {
        s += &format!("|{a}");
    }
    h30(&s)
}

fn invalid(v: &str, f: &[f64], wall: &[f64]) -> bool {
    match v {
        "rv" | "cmp" | "se2" => f[0] >= wall[0] && f[0] <= wall[1] && f[1] >= wall[2] && f[1] <= wall[3],
        "so2" => f[0] > wall[0] && f[0] < wall[1],
        "so3" => (f[0] * f[0] + f[1] * f[1]) > wall[0] && f[2] > wall[1],
        "se3" => {
            let (dx, dy, dz) = (f[0] - wall[0], f[1] - wall[1], f[2] - wall[2]);
            (dx * dx + dy * dy + dz * dz) < wall[3] * wall[3]
        }
        _ => panic!("variant"),
    }
}

struct ListGoal<SP: StateSpace> {
    space: SP,
    goals: Vec<SP::StateType>,
    r: f64,
    i: Cell<usize>,
}
impl<SP: StateSpace> HGoal<SP::StateType> for ListGoal<SP>
where
    SP::StateType: Clone,
{
    fn satisfied(&self, s: &SP::StateType) -> bool {
        self.space.distance(s, &self.goals[0]) <= self.r
    }
    fn dist(&self, s: &SP::StateType) -> f64 {
        self.space.distance(s, &self.goals[0])
    }
    fn sample(&self, _rng: &mut dyn RngCore) -> Result<SP::StateType, StateSamplingError> {
        let g = self.goals[self.i.get() % self.goals.len()].clone();
        self.i.set(self.i.get() + 1);
        Ok(g)
    }
}

fn nums(v: &Value) -> Vec<f64> {
    v.as_array().unwrap().iter().map(|x| x.as_f64().unwrap()).collect()
}

fn run_variant<SP>(sc: &Value, space: SP, mk: &dyn Fn(&[f64]) -> SP::StateType, fl: Rc<dyn Fn(&SP::StateType) -> Vec<f64>>) -> Value
where
    SP: StateSpace + Clone + 'static,
    SP::StateType: State + Clone,
{
    let v = sc["variant"].as_str().unwrap().to_string();
    let wall = nums(&sc["wall"]);
    let kind = Kind::parse(sc["planner"].as_str().unwrap());
    let params = Params {
        maxd: sc["maxd"].as_f64().unwrap(),
        bias: sc["bias"].as_f64().unwrap(),
        radius: sc["radius"].as_f64().unwrap(),
        build_ticks: 0,
        seed: sc["seed"].as_u64(),
    };
    let goals: Vec<SP::StateType> = sc["goals"].as_array().unwrap().iter().map(|g| mk(&nums(g))).collect();
    let (v2, w2, fl2) = (v.clone(), wall.clone(), fl.clone());
    let problem = Problem {
        starts: vec![mk(&nums(&sc["start"]))],
        goal: Rc::new(ListGoal { space: space.clone(), goals, r: sc["goal_r"].as_f64().unwrap(), i: Cell::new(0) }),
        checker: Rc::new(move |s: &SP::StateType| !invalid(&v2, &fl2(s), &w2)),
        pd_key: None,
        vc_key: None,
    };
    // wall clock (no virtual time): a generous limit, as on the Python side
    let secs = sc["timeout"].as_f64().unwrap();
    let calls = vec![Call::Setup(0), Call::Solve((secs * 1000.0) as u64)];
    let cfg = RunCfg { tick_sample: 0, tick_query: 0, query_cap: u64::MAX, ..RunCfg::default() };
    let recs = run_history_wallclock(kind, &params, space, &[problem], &calls, &cfg);
    let mut h = Vec::new();
    for r in &recs {
        for e in &r.raw {
            match e {
                Raw::IsValid(s, a) => h.push(rec("v", &fl(s), Some(*a as u8))),
                Raw::IsSatisfied(s, a) => h.push(rec("s", &fl(s), Some(*a as u8))),
                Raw::SampleGoal(Ok(s), _, _) => h.push(rec("g", &fl(s), None)),
                _ => {}
            }
        }
    }
    let result = match &recs[1].outcome {
        Outcome::Path(p) => {
            let s = format!(
                "path|{}",
                p.iter().map(|st| fl(st).iter().map(|x| x.to_bits().to_string()).collect::<Vec<_>>().join(",")).collect::<Vec<_>>().join(";")
            );
            json!(["ok", h30(&s), p.len()])
        }
        Outcome::Err(k) => json!(["err", k, 0]),
        Outcome::Panic { msg, .. } => json!(["err", format!("panic: {msg}"), 0]),
        Outcome::Unit => json!(["err", "unit", 0]),
    };
    json!({"id": sc["id"], "variant": v, "planner": sc["planner"], "h": h, "result": result})
}

/// The values py/pydrive.py::wrappers() reads through the Python wrappers, computed on the core.
fn wrappers() -> Value {
    let b = |x: f64| json!(x.to_bits());
    let mut out: Vec<Value> = Vec::new();
    let lat = [-5.0, -PI, -PI / 2.0, 0.0, PI / 2.0, PI, 4.0, f64::INFINITY, f64::NEG_INFINITY, f64::NAN];
    for lo in lat {
        for hi in lat {
            let r = match SO2StateSpace::new(Some((lo, hi))) {
                Ok(sp) => json!(["ok", b(sp.get_maximum_extent()), b(sp.distance(&SO2State::new(0.3), &SO2State::new(-2.9)))]),
                Err(_) => json!(["ValueError"]),
            };
            out.push(json!(["so2new", b(lo), b(hi), r]));
            let r = match RealVectorStateSpace::new(1, Some(vec![(lo, hi)])) {
                Ok(sp) => json!(["ok", b(sp.get_maximum_extent())]),
                Err(_) => json!(["ValueError"]),
            };
            out.push(json!(["rvnew", b(lo), b(hi), r]));
        }
    }
    for (dim, n) in [(0usize, 0usize), (1, 2), (2, 1), (2, 2), (0, 1)] {
        let r = match RealVectorStateSpace::new(dim, Some(vec![(0.0, 1.0); n])) {
            Ok(_) => json!(["ok"]),
            Err(_) => json!(["ValueError"]),
        };
        out.push(json!(["rvdim", dim, n, r]));
    }
    out.push(json!(["rvdim", 0, -1, match RealVectorStateSpace::new(0, None) { Ok(_) => json!(["ok"]), Err(_) => json!(["ValueError"]) }]));
    for a in [-1.0, 0.0, 0.5, PI, 4.0, f64::NAN] {
        let r = match SO3StateSpace::new(Some((SO3State::new(0.0, 0.0, 0.0, 1.0), a))) {
            Ok(sp) => json!(["ok", b(sp.get_maximum_extent())]),
            Err(_) => json!(["ValueError"]),
        };
        out.push(json!(["so3new", b(a), 0, r]));
    }
    for n in [0usize, 1, 2, 3, 4, 5] {
        let r = match SE2StateSpace::new(1.0, Some(vec![(0.0, 1.0); n])) {
            Ok(_) => json!(["ok"]),
            Err(_) => json!(["ValueError"]),
        };
        out.push(json!(["se2dim", n, 0, r]));
    }
    for n in [0usize, 1, 2, 3, 4] {
        let r = match SE3StateSpace::new(1.0, Some(vec![(0.0, 1.0); n])) {
            Ok(_) => json!(["ok"]),
            Err(_) => json!(["ValueError"]),
        };
        out.push(json!(["se3dim", n, 0, r]));
    }
    for ang in [0.0, 3.0, PI, -PI, 7.0, -9.5, 100.0, 1e6, -1e9, 2.0 * PI, 3.0 * PI] {
        out.push(json!(["so2state", b(ang), 0, ["ok", b(SO2State::new(ang).value), b(SE2State::new(1.0, 2.0, ang).get_yaw())]]));
    }
    let sp2 = SO2StateSpace::new(None).unwrap();
    let sp3 = SO3StateSpace::new(None).unwrap();
    let se2 = SE2StateSpace::new(0.5, None).unwrap();
    for (a, bb) in [(0.1, 3.0), (-3.0, 3.0), (3.1, -3.1), (10.0, -10.0)] {
        out.push(json!(["so2dist", b(a), b(bb), ["ok", b(sp2.distance(&SO2State::new(a), &SO2State::new(bb))),
                        b(se2.distance(&SE2State::new(0.0, 0.0, a), &SE2State::new(3.0, 4.0, bb)))]]));
    }
    let q = [(0.0, 0.0, 0.0, 1.0), (1.0, 0.0, 0.0, 0.0), (0.5, 0.5, 0.5, 0.5), (-0.5, -0.5, -0.5, -0.5), (0.0, 0.6, 0.0, 0.8)];
    for (i, a) in q.iter().enumerate() {
        for (j, c) in q.iter().enumerate() {
            out.push(json!(["so3dist", i, j, ["ok", b(sp3.distance(&SO3State::new(a.0, a.1, a.2, a.3), &SO3State::new(c.0, c.1, c.2, c.3)))]]));
        }
    }
    Value::Array(out)
}

fn main() {
    let args: Vec<String> = std::env::args().collect();
    let mut scf = String::new();
    let mut outp = String::new();
    let mut i = 1;
    while i < args.len() {
        match args[i].as_str() {
            "--scenarios" => {
                scf = args[i + 1].clone();
                i += 1
            }
            "--out" => {
                outp = args[i + 1].clone();
                i += 1
            }
            _ => {}
        }
        i += 1;
    }
    install_panic_hook();
    let all: Value = serde_json::from_str(&std::fs::read_to_string(&scf).unwrap()).unwrap();
    let mut out = std::io::BufWriter::new(std::fs::File::create(&outp).unwrap());
    for sc in all["mirror"].as_array().unwrap() {
        if sc["planner"] == "prm" {
            continue;
        }
        let v = sc["variant"].as_str().unwrap();
        let r = match v {
            "rv" => run_variant(
                sc,
                {
                    let mut sp = RealVectorStateSpace::new(2, Some(vec![(0.0, 10.0), (0.0, 10.0)])).unwrap();
                    if let Some(f) = sc.get("lvs_fraction").and_then(|x| x.as_f64()) {
                        sp.set_longest_valid_segment_fraction(f);
                    }
                    sp
                },
                &|f| RealVectorState::new(f.to_vec()),
                Rc::new(|s: &RealVectorState| s.values.clone()),
            ),
            "so2" => run_variant(
                sc,
                {
                    let mut sp = SO2StateSpace::new(None).unwrap();
                    if let Some(f) = sc.get("lvs_fraction").and_then(|x| x.as_f64()) {
                        sp.set_longest_valid_segment_fraction(f);
                    }
                    sp
                },
                &|f| SO2State::new(f[0]),
                Rc::new(|s: &SO2State| vec![s.value]),
            ),
            "so3" => run_variant(
                sc,
                {
                    let mut sp = match sc.get("so3_bounds").and_then(|b| b.as_array()) {
                        Some(b) => {
                            let b: Vec<f64> = b.iter().map(|x| x.as_f64().unwrap()).collect();
                            SO3StateSpace::new(Some((SO3State::new(b[0], b[1], b[2], b[3]), b[4]))).unwrap()
                        }
                        None => SO3StateSpace::new(None).unwrap(),
                    };
                    if let Some(f) = sc.get("lvs_fraction").and_then(|x| x.as_f64()) {
                        sp.set_longest_valid_segment_fraction(f);
                    }
                    sp
                },
                &|f| SO3State::new(f[0], f[1], f[2], f[3]),
                Rc::new(|s: &SO3State| vec![s.x, s.y, s.z, s.w]),
            ),
            "cmp" => {
                let r2 = RealVectorStateSpace::new(2, Some(vec![(0.0, 6.0), (0.0, 6.0)])).unwrap();
                let so2 = SO2StateSpace::new(Some((-1.5, 1.5))).unwrap();
                run_variant(
                    sc,
                    CompoundStateSpace::new(vec![Box::new(r2), Box::new(so2)], vec![1.0, 2.0]),
                    &|f| CompoundState { components: vec![Box::new(RealVectorState::new(vec![f[0], f[1]])), Box::new(SO2State::new(f[2]))] },
                    Rc::new(|s: &CompoundState| {
                        let r = s.components[0].as_any().downcast_ref::<RealVectorState>().unwrap();
                        let a = s.components[1].as_any().downcast_ref::<SO2State>().unwrap();
                        vec![r.values[0], r.values[1], a.value]
                    }),
                )
            }
            "se2" => run_variant(
                sc,
                SE2StateSpace::new(0.5, Some(vec![(0.0, 10.0), (0.0, 10.0), (-PI, PI)])).unwrap(),
                &|f| SE2State::new(f[0], f[1], f[2]),
                Rc::new(|s: &SE2State| vec![s.get_x(), s.get_y(), s.get_yaw()]),
            ),
            "se3" => run_variant(
                sc,
                SE3StateSpace::new(1.0, Some(vec![(0.0, 4.0), (0.0, 4.0), (0.0, 4.0)])).unwrap(),
                &|f| SE3State::new(f[0], f[1], f[2], SO3State::new(f[3], f[4], f[5], f[6])),
                Rc::new(|s: &SE3State| {
                    let q = s.get_rotation();
                    vec![s.get_x(), s.get_y(), s.get_z(), q.x, q.y, q.z, q.w]
                }),
            ),
            _ => panic!("variant"),
        };
        writeln!(out, "{}", r).unwrap();
    }
    writeln!(out, "{}", json!({"mode": "wrappers", "values": wrappers()})).unwrap();
    out.flush().unwrap();
}
