//! Implementation -> specification on the six REAL state spaces: drives the real planners on
//! generated worlds, records every iteration, annotates and writes the trace for the TLC monitor.
//!
//!   realrun --out trace.ndjson --seed N --tier quick|thorough [--shards K] [--only RUN] [--list]

use oxmpl::base::{
    error::StateSamplingError,
    space::{
        CompoundStateSpace, RealVectorStateSpace, SE2StateSpace, SE3StateSpace, SO2StateSpace, SO3StateSpace,
        StateSpace,
    },
    state::{CompoundState, RealVectorState, SE2State, SE3State, SO2State, SO3State, State},
};
use rand::{rngs::StdRng, Rng, RngCore, SeedableRng};
use serde_json::{json, Value};
use std::collections::HashMap;
use std::io::{BufWriter, Write};
use std::rc::Rc;
use vharness::annot::{Annot, ProblemInfo};
use vharness::codec::Bits;
use vharness::drive::*;
use vharness::geom::RealGeom;
use vharness::instr::{Draw, HGoal, Raw};

const PI: f64 = std::f64::consts::PI;

/// One world on a space: clearance (1-Lipschitz in the space metric), start, goal ball.
struct Scn<S> {
    name: String,
    clearance: Rc<dyn Fn(&S) -> f64>,
    start: S,
    goal: S,
    goal_r: f64,
    /// 0 = goal certainly unreachable, 1 = reachable (by construction), 2 = unknown
    feas: u8,
}

struct BallGoal<SP: StateSpace> {
    space: SP,
    center: SP::StateType,
    r: f64,
}
impl<SP: StateSpace> HGoal<SP::StateType> for BallGoal<SP>
where
    SP::StateType: Clone,
{
    fn satisfied(&self, s: &SP::StateType) -> bool {
        self.space.distance(s, &self.center) <= self.r
    }
    fn dist(&self, s: &SP::StateType) -> f64 {
        (self.space.distance(s, &self.center) - self.r).max(0.0)
    }
    fn sample(&self, rng: &mut dyn RngCore) -> Result<SP::StateType, StateSamplingError> {
        // consumes randomness: a point at distance <= 0.9 r from the centre, toward a uniform sample
        struct W<'a>(&'a mut dyn RngCore);
        impl<'a> RngCore for W<'a> {
            fn next_u32(&mut self) -> u32 {
                self.0.next_u32()
            }
            fn next_u64(&mut self) -> u64 {
                self.0.next_u64()
            }
            fn fill_bytes(&mut self, d: &mut [u8]) {
                self.0.fill_bytes(d)
            }
        }
        let mut w = W(rng);
        let t: f64 = w.random::<f64>();
        let u = self.space.sample_uniform(&mut w)?;
        let d = self.space.distance(&self.center, &u);
        if d <= 1e-12 {
            return Ok(self.center.clone());
        }
        let frac = (0.9 * self.r * t / d).min(1.0);
        let mut out = self.center.clone();
        self.space.interpolate(&self.center, &u, frac, &mut out);
        Ok(out)
    }
}

fn sdf_box(x: &[f64], lo: &[f64], hi: &[f64]) -> f64 {
    // signed distance to an axis-aligned box (negative inside), 1-Lipschitz
    let mut out2 = 0.0;
    let mut inside = f64::NEG_INFINITY;
    for i in 0..x.len() {
        let c = 0.5 * (lo[i] + hi[i]);
        let h = 0.5 * (hi[i] - lo[i]);
        let q = (x[i] - c).abs() - h;
        if q > 0.0 {
            out2 += q * q;
        }
        inside = inside.max(q);
    }
    if out2 > 0.0 {
        out2.sqrt()
    } else {
        inside
    }
}

fn rv(v: &[f64]) -> RealVectorState {
    RealVectorState::new(v.to_vec())
}

// ------------------------------------------------------------------------------- scenario sets

fn rv_sets(tier: &str) -> Vec<(String, RealVectorStateSpace, Vec<Scn<RealVectorState>>)> {
    let mut out = Vec::new();
    // R^2, box [0,10]^2: lvs = 0.05 * 14.14 = 0.707
    let sp = RealVectorStateSpace::new(2, Some(vec![(0.0, 10.0), (0.0, 10.0)])).unwrap();
    let mut scs = Vec::new();
    scs.push(Scn { name: "free".into(), clearance: Rc::new(|_s: &RealVectorState| 1.0), start: rv(&[1.0, 1.0]), goal: rv(&[9.0, 9.0]), goal_r: 0.5, feas: 1 });
    // wall thicker than lvs but thinner than the step, with a gap at the top
    scs.push(Scn {
        name: "wall-gap".into(),
        clearance: Rc::new(|s: &RealVectorState| sdf_box(&s.values, &[4.5, -1.0], &[5.5, 7.0])),
        start: rv(&[1.0, 1.0]),
        goal: rv(&[9.0, 1.0]),
        goal_r: 0.5,
        feas: 1,
    });
    // goal sealed off by a full-height wall (thickness 1.0 > lvs)
    scs.push(Scn {
        name: "sealed".into(),
        clearance: Rc::new(|s: &RealVectorState| sdf_box(&s.values, &[4.5, -1.0], &[5.5, 11.0])),
        start: rv(&[1.0, 5.0]),
        goal: rv(&[9.0, 5.0]),
        goal_r: 0.5,
        feas: 0,
    });
    // start marginally inside an obstacle (ball radius 1 around (1.5,1.5), start 0.9 from centre)
    scs.push(Scn {
        name: "start-in-obstacle".into(),
        clearance: Rc::new(|s: &RealVectorState| ((s.values[0] - 1.5).powi(2) + (s.values[1] - 1.5).powi(2)).sqrt() - 1.0),
        start: rv(&[1.5, 0.6]),
        goal: rv(&[9.0, 9.0]),
        goal_r: 0.5,
        feas: 2,
    });
    // goal region overlapping an obstacle
    scs.push(Scn {
        name: "goal-overlaps".into(),
        clearance: Rc::new(|s: &RealVectorState| ((s.values[0] - 9.3).powi(2) + (s.values[1] - 9.0).powi(2)).sqrt() - 0.4),
        start: rv(&[1.0, 1.0]),
        goal: rv(&[9.0, 9.0]),
        goal_r: 0.6,
        feas: 1,
    });
    out.push(("rv2".to_string(), sp, scs));
    // C01 has no in-bounds precondition: a goal region overhanging the box, with an obstacle flush
    // against the inside of the boundary (a state outside the box is free, its projection is not)
    let sp_o = RealVectorStateSpace::new(2, Some(vec![(0.0, 10.0), (0.0, 10.0)])).unwrap();
    out.push((
        "rv2-overhang".to_string(),
        sp_o,
        vec![Scn {
            name: "goal-outside".into(),
            clearance: Rc::new(|s: &RealVectorState| sdf_box(&s.values, &[9.6, 5.5], &[10.0, 6.5])),
            start: rv(&[8.8, 5.0]),
            goal: rv(&[10.6, 6.0]),
            goal_r: 0.5,
            feas: 2,
        }],
    ));
    // fine resolution (lvs = 0.0707): motions of many hundred interpolation steps, PRM radius and
    // RRT step far above 32 resolution lengths, a thin full-height wall (0.12 > lvs)
    let mut fine = RealVectorStateSpace::new(2, Some(vec![(0.0, 10.0), (0.0, 10.0)])).unwrap();
    fine.set_longest_valid_segment_fraction(0.005);
    out.push((
        "rv2-fine".to_string(),
        fine,
        vec![Scn {
            name: "thin-wall".into(),
            clearance: Rc::new(|s: &RealVectorState| sdf_box(&s.values, &[4.94, -1.0], &[5.06, 11.0])),
            start: rv(&[1.0, 5.0]),
            goal: rv(&[9.0, 5.0]),
            goal_r: 0.5,
            feas: 0,
        }],
    ));
    if tier == "thorough" {
        let mut sp3 = RealVectorStateSpace::new(3, Some(vec![(-1.0, 1.0), (-2.0, 2.0), (0.0, 1.0)])).unwrap();
        sp3.set_longest_valid_segment_fraction(0.02);
        let scs3 = vec![
            Scn { name: "free".into(), clearance: Rc::new(|_s: &RealVectorState| 1.0), start: rv(&[-0.8, -1.8, 0.1]), goal: rv(&[0.8, 1.8, 0.9]), goal_r: 0.2, feas: 1 },
            Scn {
                name: "ball".into(),
                clearance: Rc::new(|s: &RealVectorState| (s.values[0].powi(2) + s.values[1].powi(2) + (s.values[2] - 0.5).powi(2)).sqrt() - 0.6),
                start: rv(&[-0.8, -1.8, 0.1]),
                goal: rv(&[0.8, 1.8, 0.9]),
                goal_r: 0.2,
                feas: 1,
            },
        ];
        out.push(("rv3-fine".to_string(), sp3, scs3));
    }
    out
}

fn so2_sets(tier: &str) -> Vec<(String, SO2StateSpace, Vec<Scn<SO2State>>)> {
    let mut out = Vec::new();
    let ang = |a: f64, b: f64| -> f64 {
        let d = (a - b + PI).rem_euclid(2.0 * PI) - PI;
        d.abs()
    };
    let full = SO2StateSpace::new(None).unwrap();
    let mut scs = Vec::new();
    scs.push(Scn { name: "free-seam".into(), clearance: Rc::new(|_s: &SO2State| 1.0), start: SO2State::new(2.8), goal: SO2State::new(-2.8), goal_r: 0.1, feas: 1 });
    // a sector obstacle around 0 (half width 0.4 > lvs = 0.157): forces the way over the seam
    scs.push(Scn { name: "sector".into(), clearance: Rc::new(move |s: &SO2State| ang(s.value, 0.0) - 0.4), start: SO2State::new(-1.0), goal: SO2State::new(1.0), goal_r: 0.1, feas: 1 });
    // two sectors seal the goal
    scs.push(Scn {
        name: "sealed".into(),
        clearance: Rc::new(move |s: &SO2State| (ang(s.value, 0.0) - 0.3).min(ang(s.value, PI) - 0.3)),
        start: SO2State::new(-1.5),
        goal: SO2State::new(1.5),
        goal_r: 0.1,
        feas: 0,
    });
    out.push(("so2-full".to_string(), full, scs));
    // bounded interval (convex: span <= pi)
    let narrow = SO2StateSpace::new(Some((-1.0, 1.5))).unwrap();
    out.push((
        "so2-narrow".to_string(),
        narrow,
        vec![Scn { name: "free".into(), clearance: Rc::new(|_s: &SO2State| 1.0), start: SO2State::new(-0.9), goal: SO2State::new(1.4), goal_r: 0.05, feas: 1 }],
    ));
    // an interval exactly pi wide, start and (exact) goal at its two ends: the two are antipodal, both arcs
    // are shortest, and only the one through the interval stays inside the bounds
    let half = SO2StateSpace::new(Some((-PI / 2.0, PI / 2.0))).unwrap();
    out.push((
        "so2-half".to_string(),
        half,
        vec![Scn { name: "end-to-end".into(), clearance: Rc::new(|_s: &SO2State| 1.0), start: SO2State::new(-PI / 2.0), goal: SO2State::new(PI / 2.0), goal_r: 0.0, feas: 1 }],
    ));
    // interval wider than pi: the short arc between in-bounds states can leave the bounds
    let wide = SO2StateSpace::new(Some((-3.0, 3.0))).unwrap();
    out.push((
        "so2-wide".to_string(),
        wide,
        vec![Scn { name: "free".into(), clearance: Rc::new(|_s: &SO2State| 1.0), start: SO2State::new(-2.9), goal: SO2State::new(2.9), goal_r: 0.05, feas: 1 }],
    ));
    if tier == "thorough" {
        let right = SO2StateSpace::new(Some((0.5, PI))).unwrap();
        out.push((
            "so2-touching-pi".to_string(),
            right,
            vec![Scn { name: "free".into(), clearance: Rc::new(|_s: &SO2State| 1.0), start: SO2State::new(0.6), goal: SO2State::new(3.0), goal_r: 0.05, feas: 1 }],
        ));
    }
    out
}

fn q_axis(ax: usize, ang: f64) -> SO3State {
    let (s, c) = ((ang / 2.0).sin(), (ang / 2.0).cos());
    match ax {
        0 => SO3State::new(s, 0.0, 0.0, c),
        1 => SO3State::new(0.0, s, 0.0, c),
        _ => SO3State::new(0.0, 0.0, s, c),
    }
}

fn so3_sets(tier: &str) -> Vec<(String, SO3StateSpace, Vec<Scn<SO3State>>)> {
    let mut out = Vec::new();
    let full = SO3StateSpace::new(None).unwrap();
    let f2 = full.clone();
    let f3 = full.clone();
    let mut scs = Vec::new();
    scs.push(Scn { name: "free".into(), clearance: Rc::new(|_s: &SO3State| 1.0), start: q_axis(2, 0.2), goal: q_axis(0, 2.5), goal_r: 0.15, feas: 1 });
    let oc = q_axis(1, 1.2);
    scs.push(Scn { name: "ball".into(), clearance: Rc::new(move |s: &SO3State| f2.distance(s, &oc) - 0.5), start: q_axis(1, 0.2), goal: q_axis(1, 2.4), goal_r: 0.15, feas: 1 });
    let gq = q_axis(0, 2.0);
    let gq2 = gq.clone();
    // goal entirely inside an obstacle
    scs.push(Scn { name: "goal-invalid".into(), clearance: Rc::new(move |s: &SO3State| f3.distance(s, &gq2) - 0.6), start: q_axis(2, 0.1), goal: gq, goal_r: 0.15, feas: 0 });
    out.push(("so3-full".to_string(), full, scs));
    let cone = SO3StateSpace::new(Some((SO3State::identity(), 1.0))).unwrap();
    out.push((
        "so3-cone1.0".to_string(),
        cone,
        vec![Scn { name: "free".into(), clearance: Rc::new(|_s: &SO3State| 1.0), start: q_axis(0, -0.8), goal: q_axis(1, 0.8), goal_r: 0.1, feas: 1 }],
    ));
    // narrow cone, start and goal near the rim, the goal given with the opposite quaternion sign (the
    // same rotation): steering between nearly identical rotations of opposite sign must stay inside
    let neg = |q: SO3State| SO3State::new(-q.x, -q.y, -q.z, -q.w);
    let narrow = SO3StateSpace::new(Some((SO3State::identity(), 0.3))).unwrap();
    out.push((
        "so3-cone0.3".to_string(),
        narrow,
        vec![Scn { name: "neg-goal".into(), clearance: Rc::new(|_s: &SO3State| 1.0), start: q_axis(0, 0.25), goal: neg(q_axis(0, 0.29)), goal_r: 0.005, feas: 1 }],
    ));
    if tier == "thorough" {
        let wide = SO3StateSpace::new(Some((SO3State::identity(), 2.6))).unwrap();
        out.push((
            "so3-cone2.6".to_string(),
            wide,
            vec![Scn { name: "free".into(), clearance: Rc::new(|_s: &SO3State| 1.0), start: q_axis(0, 2.5), goal: q_axis(0, -2.5), goal_r: 0.1, feas: 1 }],
        ));
    }
    out
}

fn se2_sets(_tier: &str) -> Vec<(String, SE2StateSpace, Vec<Scn<SE2State>>)> {
    let sp = SE2StateSpace::new(0.5, Some(vec![(0.0, 10.0), (0.0, 10.0), (-PI, PI)])).unwrap();
    let scs = vec![
        Scn { name: "free".into(), clearance: Rc::new(|_s: &SE2State| 1.0), start: SE2State::new(1.0, 1.0, 3.0), goal: SE2State::new(9.0, 9.0, -3.0), goal_r: 0.6, feas: 1 },
        Scn {
            name: "wall-gap".into(),
            clearance: Rc::new(|s: &SE2State| sdf_box(&[s.get_x(), s.get_y()], &[4.5, -1.0], &[5.5, 7.0])),
            start: SE2State::new(1.0, 1.0, 0.0),
            goal: SE2State::new(9.0, 1.0, 1.0),
            goal_r: 0.6,
            feas: 1,
        },
        Scn {
            name: "sealed".into(),
            clearance: Rc::new(|s: &SE2State| sdf_box(&[s.get_x(), s.get_y()], &[4.5, -1.0], &[5.5, 11.0])),
            start: SE2State::new(1.0, 5.0, 0.0),
            goal: SE2State::new(9.0, 5.0, 0.0),
            goal_r: 0.6,
            feas: 0,
        },
    ];
    vec![("se2-w0.5".to_string(), sp, scs)]
}

fn se3_sets(_tier: &str) -> Vec<(String, SE3StateSpace, Vec<Scn<SE3State>>)> {
    let sp = SE3StateSpace::new(1.0, Some(vec![(0.0, 4.0), (0.0, 4.0), (0.0, 4.0)])).unwrap();
    let scs = vec![
        Scn { name: "free".into(), clearance: Rc::new(|_s: &SE3State| 1.0), start: SE3State::new(0.5, 0.5, 0.5, q_axis(2, 0.3)), goal: SE3State::new(3.5, 3.5, 3.5, q_axis(0, 2.0)), goal_r: 0.5, feas: 1 },
        Scn {
            name: "ball".into(),
            clearance: Rc::new(|s: &SE3State| ((s.get_x() - 2.0).powi(2) + (s.get_y() - 2.0).powi(2) + (s.get_z() - 2.0).powi(2)).sqrt() - 1.0),
            start: SE3State::new(0.5, 0.5, 0.5, q_axis(2, 0.3)),
            goal: SE3State::new(3.5, 3.5, 3.5, q_axis(1, 1.0)),
            goal_r: 0.5,
            feas: 1,
        },
    ];
    vec![("se3-w1".to_string(), sp, scs)]
}

fn cmp_state(x: f64, y: f64, th: f64) -> CompoundState {
    CompoundState { components: vec![Box::new(RealVectorState::new(vec![x, y])), Box::new(SO2State::new(th))] }
}
fn cmp_xy(s: &CompoundState) -> [f64; 2] {
    let r = s.components[0].as_any().downcast_ref::<RealVectorState>().unwrap();
    [r.values[0], r.values[1]]
}

fn cmp_sets(_tier: &str) -> Vec<(String, CompoundStateSpace, Vec<Scn<CompoundState>>)> {
    let r2 = RealVectorStateSpace::new(2, Some(vec![(0.0, 6.0), (0.0, 6.0)])).unwrap();
    let so2 = SO2StateSpace::new(Some((-1.5, 1.5))).unwrap();
    let sp = CompoundStateSpace::new(vec![Box::new(r2), Box::new(so2)], vec![1.0, 2.0]);
    let scs = vec![
        Scn { name: "free".into(), clearance: Rc::new(|_s: &CompoundState| 1.0), start: cmp_state(0.5, 0.5, -1.0), goal: cmp_state(5.5, 5.5, 1.0), goal_r: 0.5, feas: 1 },
        Scn {
            name: "ball".into(),
            clearance: Rc::new(|s: &CompoundState| {
                let p = cmp_xy(s);
                ((p[0] - 3.0).powi(2) + (p[1] - 3.0).powi(2)).sqrt() - 1.2
            }),
            start: cmp_state(0.5, 0.5, 0.0),
            goal: cmp_state(5.5, 5.5, 0.5),
            goal_r: 0.5,
            feas: 1,
        },
    ];
    vec![("cmp-r2xso2-w2".to_string(), sp, scs)]
}

// ------------------------------------------------------------------------------------- runner

struct Ctx {
    progress: Option<String>,
    skip: std::collections::HashSet<usize>,
    outs: Vec<BufWriter<std::fs::File>>,
    run: usize,
    only: Option<usize>,
    list: bool,
    seed: u64,
    tier: String,
    nevents: usize,
    nruns: usize,
    index: Vec<Value>,
}

fn digests<S: Bits>(recs: &[CallRec<S>], ids: &mut HashMap<String, usize>) -> Vec<(Vec<usize>, usize, bool)> {
    let mut id = |s: String| -> usize {
        let n = ids.len() + 1;
        *ids.entry(s).or_insert(n)
    };
    let mut out = Vec::new();
    for r in recs {
        let mut ds = Vec::new();
        for e in &r.raw {
            match e {
                Raw::SampleUniform(res, _, draws) | Raw::SampleGoal(res, _, draws) => {
                    let k = if matches!(e, Raw::SampleUniform(..)) { "U" } else { "G" };
                    let dd: Vec<String> = draws
                        .iter()
                        .map(|d| match d {
                            Draw::U32(v) => format!("a{v}"),
                            Draw::U64(v) => format!("b{v}"),
                            Draw::Fill(b) => format!("c{b:?}"),
                        })
                        .collect();
                    let rs = match res {
                        Ok(s) => format!("{:?}", s.bits()),
                        Err(e) => e.clone(),
                    };
                    ds.push(id(format!("{k}|{}|{rs}", dd.join(","))));
                }
                _ => {}
            }
        }
        let o = match &r.outcome {
            Outcome::Unit => "unit".to_string(),
            Outcome::Path(p) => format!("path{:?}", p.iter().map(|s| s.bits()).collect::<Vec<_>>()),
            Outcome::Err(k) => format!("err:{k}"),
            Outcome::Panic { loc, .. } => format!("panic:{loc}"),
        };
        out.push((ds, id(o), matches!(r.outcome, Outcome::Panic { .. })));
    }
    out
}

fn path_len<SP: StateSpace>(sp: &SP, p: &[SP::StateType]) -> f64 {
    p.windows(2).map(|w| sp.distance(&w[0], &w[1])).sum()
}

fn exec_sets<SP>(ctx: &mut Ctx, sets: Vec<(String, SP, Vec<Scn<SP::StateType>>)>, alias: Option<fn(&SP::StateType) -> SP::StateType>)
where
    SP: StateSpace + Clone + 'static,
    SP::StateType: State + Clone + Bits,
{
    let iters: u64 = if ctx.tier == "thorough" { 200 } else { 50 };
    let nseeds: u64 = if ctx.tier == "thorough" { 4 } else { 2 };
    for (label, space, scs) in sets {
        let lvs = space.get_longest_valid_segment_length();
        for sc in &scs {
            for kind in [Kind::Rrt, Kind::Star, Kind::Conn, Kind::Prm] {
                for si in 0..nseeds {
                    // parameter rotation driven by the seed and the run number
                    // every (scenario, planner) is run with a short-step and a long-step parameter set
                    let rot = (ctx.seed as usize + ctx.run - si as usize + [0usize, 3, 1, 4, 2, 5][si as usize % 6]) % 6;
                    let longs = label.ends_with("-fine");
                    // the step is tied to the parameter-set index, so that EVERY (scenario, planner) gets a
                    // short-step run (0.6 lvs) and a medium-step run (5 lvs); radius and bias rotate with the run
                    let maxd = if longs { [60.0, 45.0, 80.0, 50.0, 70.0, 40.0][rot] * lvs } else { [0.6, 5.0, 40.0, 3.0, 8.0, 5.0][si as usize % 6] * lvs };
                    let radius = [1.5, 0.7, 2.0, 3.0, 0.2, 1.0][rot] * maxd;
                    let bias = [0.05, 0.5, 0.0, 1.0, 0.2, 0.05][rot];
                    // the narrow-cone scenario: steps shorter than the start-goal gap, always toward the goal
                    let (maxd, bias) = if label == "so3-cone0.3" { (0.38 * lvs, 1.0) } else { (maxd, bias) };
                    let pseed = ctx.seed.wrapping_mul(7919).wrapping_add(ctx.run as u64 * 31 + si);
                    ctx.run += 1;
                    let run = ctx.run;
                    let iters = if kind == Kind::Star { iters * 3 } else { iters };
                    let desc = json!({"space": label, "world": sc.name, "planner": kind.name(), "maxd": maxd, "radius": radius,
                                      "bias": bias, "seed": pseed, "iters": iters, "lvs": lvs, "feas": sc.feas});
                    if ctx.list {
                        println!("{}", json!({"run": run, "desc": desc}));
                        continue;
                    }
                    if let Some(o) = ctx.only {
                        if o != run {
                            continue;
                        }
                    }
                    if ctx.skip.contains(&run) {
                        ctx.index.push(json!({"run": run, "desc": desc, "skipped": true}));
                        continue;
                    }
                    if let Some(pf) = &ctx.progress {
                        std::fs::write(pf, format!("{}", run)).ok();
                    }
                    let params = Params { maxd, bias, radius: if kind == Kind::Prm { (if longs { [50.0, 60.0, 45.0][rot % 3] } else { [6.0, 3.0, 9.0][rot % 3] }) * lvs } else if longs { 1.2 * maxd } else { radius },
                                          build_ticks: if longs { 12 } else { iters.min(30) }, seed: Some(pseed) };
                    let cl = sc.clearance.clone();
                    // the second parameter set of a feasible scenario lists a second start state (the goal
                    // centre: usually valid, far from the first start); the pinned planners plan from the first
                    let starts: Vec<SP::StateType> = if si % 2 == 1 && sc.feas == 1 { vec![sc.start.clone(), sc.goal.clone()] } else { vec![sc.start.clone()] };
                    let mk_problem = || Problem {
                        starts: starts.clone(),
                        goal: Rc::new(BallGoal { space: space.clone(), center: sc.goal.clone(), r: sc.goal_r }) as Rc<dyn HGoal<SP::StateType>>,
                        checker: {
                            let cl = cl.clone();
                            Rc::new(move |s: &SP::StateType| cl(s) > 0.0)
                        },
                        pd_key: None,
                        vc_key: None,
                    };
                    // the planner is CONSTRUCTED with other parameter values (a 20 times shorter step, the
                    // complementary goal bias, half the radius) and gets the intended ones assigned to its public
                    // fields after setup: whatever was derived from the old values must not survive
                    let params0 = Params { maxd: 0.05 * params.maxd, bias: if params.bias == 0.0 { 1.0 } else if params.bias == 1.0 { 0.0 } else { 1.0 - params.bias },
                                           radius: 0.5 * params.radius, build_ticks: params.build_ticks, seed: params.seed };
                    let calls: Vec<Call> = if kind == Kind::Prm {
                        vec![Call::Setup(0), Call::SetParams(params.clone()), Call::Construct, Call::Solve(5), Call::Construct, Call::Solve(5)]
                    } else if kind == Kind::Star && si % 2 == 0 {
                        // anytime use: several solves on one tree (equal iteration counts on purpose), then the search
                        // radius is set to zero - from there on no node has neighbours: nearest parent, no rewiring
                        vec![Call::Setup(0), Call::SetParams(params.clone()), Call::Solve(iters), Call::Solve(iters / 4), Call::Solve(iters / 4),
                             Call::SetParams(Params { radius: 0.0, ..params.clone() }), Call::Solve(iters / 4)]
                    } else {
                        vec![Call::Setup(0), Call::SetParams(params.clone()), Call::Solve(iters), Call::Solve(iters / 4), Call::Solve(iters / 4), Call::Solve(iters / 4)]
                    };
                    let cfg = RunCfg::default();
                    let recs = run_history(kind, &params0, space.clone(), &[mk_problem()], &calls, &cfg);
                    let recs2 = run_history(kind, &params0, space.clone(), &[mk_problem()], &calls, &cfg);
                    let geom = RealGeom { space: space.clone(), clearance: sc.clearance.clone(), label: label.clone() };
                    let gsp = space.clone();
                    let gc = sc.goal.clone();
                    let gr = sc.goal_r;
                    let pinfo = vec![ProblemInfo {
                        start: Some(sc.start.clone()),
                        starts: starts.clone(),
                        goal_sat: Box::new(move |s: &SP::StateType| gsp.distance(s, &gc) <= gr),
                        feas: sc.feas,
                    }];
                    let mut an = Annot::new(&geom, kind, params0.clone());
                    an.c04_precondition = label != "rv2-overhang";
                    an.reset(run, desc.clone());
                    for r in &recs {
                        an.call(r, &pinfo);
                    }
                    let mut ids = HashMap::new();
                    for (inst, rr) in [(1, &recs), (2, &recs2)] {
                        for (ci, (ds, o, pan)) in digests(rr, &mut ids).into_iter().enumerate() {
                            an.out.push(json!({"ev": "stream", "inst": inst, "call": ci + 1, "draws": ds, "res": o, "pan": pan, "tag": "C07"}));
                        }
                    }
                    // a third same-seed instance on a slower clock (C07, timing independence)
                    {
                        // (a query costs 1/37 of a tick: most iterations complete, deadlines fall at arbitrary points inside them)
                        let cfg3 = RunCfg { query_ns: TICK_NS / 37, ..RunCfg::default() };
                        let recs3 = run_history(kind, &params0, space.clone(), &[mk_problem()], &calls, &cfg3);
                        let mut tids = HashMap::new();
                        if let (Some(a), Some(b)) = (vharness::timing::epochs(&recs, &mut tids), vharness::timing::epochs(&recs3, &mut tids)) {
                            an.out.push(json!({"ev": "timing", "a": a, "b": b}));
                        }
                    }
                    // RRT* versus RRT on the same seed / problem / budget (C17)
                    if kind == Kind::Star {
                        let rr = run_history(Kind::Rrt, &params0, space.clone(), &[mk_problem()], &calls[..3], &cfg);
                        let pushes = |rs: &[CallRec<SP::StateType>]| -> Vec<Vec<u64>> {
                            match &rs[2].snap {
                                Snapshot::Trees(t) => t[0].iter().map(|n| n.0.bits()).collect(),
                                _ => vec![],
                            }
                        };
                        let (a, b) = (pushes(&recs[..3]), pushes(&rr));
                        let (oka, okb) = (matches!(recs[2].outcome, Outcome::Path(_)), matches!(rr[2].outcome, Outcome::Path(_)));
                        let (mut same_end, mut ls, mut lr) = (true, 0.0, 0.0);
                        if let (Outcome::Path(ps), Outcome::Path(pr)) = (&recs[2].outcome, &rr[2].outcome) {
                            same_end = ps.last().map(|s| s.bits()) == pr.last().map(|s| s.bits());
                            ls = path_len(&space, ps);
                            lr = path_len(&space, pr);
                        }
                        let u = geom.space.get_longest_valid_segment_length() / vharness::tol::UNITS_PER_LVS;
                        an.out.push(json!({"ev": "pair", "nodes_equal": a == b, "ok_star": oka, "ok_rrt": okb, "same_end": same_end,
                                           "len_star": (ls / u).round() as i64, "len_rrt": (lr / u).round() as i64}));
                    }
                    // PRM, follow-up query from a start that (nearly) coincides with a milestone of the roadmap
                    // just built: same run again (deterministic), then set_problem_definition and solve
                    if kind == Kind::Prm {
                        if let Some(Snapshot::Roadmap(rm)) = recs.get(2).map(|r| r.snap.clone()) {
                            if let Some((m0, _)) = rm.first() {
                                // the start: another representation of the milestone where the space has one (distance
                                // exactly 0, different bits), else the milestone moved by 1e-13 of the way to the goal.
                                // With an alias the goal is a tiny ball around the milestone itself, so that the
                                // milestone is the first (and last) roadmap node of the answer.
                                let mut s2 = m0.clone();
                                let (gc2c, gr2) = match alias {
                                    Some(f) => {
                                        s2 = f(m0);
                                        (m0.clone(), 1e-6)
                                    }
                                    None => {
                                        space.interpolate(m0, &sc.goal, 1e-13, &mut s2);
                                        (sc.goal.clone(), sc.goal_r)
                                    }
                                };
                                let p2 = Problem {
                                    starts: vec![s2.clone()],
                                    goal: Rc::new(BallGoal { space: space.clone(), center: gc2c.clone(), r: gr2 }) as Rc<dyn HGoal<SP::StateType>>,
                                    checker: {
                                        let cl = cl.clone();
                                        Rc::new(move |s: &SP::StateType| cl(s) > 0.0)
                                    },
                                    pd_key: None,
                                    vc_key: None,
                                };
                                let calls2 = vec![Call::Setup(0), Call::SetParams(params.clone()), Call::Construct, Call::Solve(5), Call::SetPd(1), Call::Solve(5)];
                                let recs4 = run_history(kind, &params0, space.clone(), &[mk_problem(), p2], &calls2, &cfg);
                                let gsp2 = space.clone();
                                let gc2 = gc2c.clone();
                                let mut pinfo2 = pinfo;
                                pinfo2.push(ProblemInfo { start: Some(s2.clone()), starts: vec![s2], goal_sat: Box::new(move |s: &SP::StateType| gsp2.distance(s, &gc2) <= gr2), feas: 2 });
                                let mut an2 = Annot::new(&geom, kind, params0.clone());
                                an2.c04_precondition = an.c04_precondition;
                                an2.reset(run, desc.clone());
                                for r in &recs4 {
                                    an2.call(r, &pinfo2);
                                }
                                an.out.extend(an2.out);
                            }
                        }
                    }
                    let shard = ctx.nruns % ctx.outs.len();
                    for ev in &an.out {
                        writeln!(ctx.outs[shard], "{}", ev).unwrap();
                        ctx.nevents += 1;
                    }
                    ctx.nruns += 1;
                    ctx.index.push(json!({"run": run, "desc": desc}));
                }
            }
        }
    }
}

/// C06 probe: a non-positive resolution fraction. The setters store 0 for it; one motion check then
/// wants ~2^64 interpolation steps. The query cap turns that into an observable outcome.
fn resolution_zero_probe(ctx: &mut Ctx) {
    for kind in [Kind::Rrt, Kind::Star, Kind::Conn, Kind::Prm] {
        for frac in [0.0, -1.0] {
            ctx.run += 1;
            let run = ctx.run;
            let desc = json!({"space": "rv2-res0", "world": "free", "planner": kind.name(), "fraction": frac, "probe": "resolution-fraction"});
            if ctx.list {
                println!("{}", json!({"run": run, "desc": desc}));
                continue;
            }
            if let Some(o) = ctx.only {
                if o != run {
                    continue;
                }
            }
            if ctx.skip.contains(&run) {
                continue;
            }
            if let Some(pf) = &ctx.progress {
                std::fs::write(pf, format!("{}", run)).ok();
            }
            let mut space = RealVectorStateSpace::new(2, Some(vec![(0.0, 10.0), (0.0, 10.0)])).unwrap();
            space.set_longest_valid_segment_fraction(frac);
            let params = Params { maxd: 1.0, bias: 0.05, radius: 2.0, build_ticks: 5, seed: Some(7) };
            let problem = Problem {
                starts: vec![rv(&[1.0, 1.0])],
                goal: Rc::new(BallGoal { space: space.clone(), center: rv(&[9.0, 9.0]), r: 0.5 }) as Rc<dyn HGoal<RealVectorState>>,
                checker: Rc::new(|_s: &RealVectorState| true),
                pd_key: None,
                vc_key: None,
            };
            let calls = if kind == Kind::Prm { vec![Call::Setup(0), Call::Construct, Call::Solve(5)] } else { vec![Call::Setup(0), Call::Solve(5)] };
            let cfg = RunCfg { query_cap: 50_000, ..RunCfg::default() };
            let recs = run_history(kind, &params, space, &[problem], &calls, &cfg);
            let mut worst = "ok".to_string();
            let mut queries = 0usize;
            for r in &recs {
                queries += r.raw.iter().filter(|e| matches!(e, Raw::IsValid(..))).count();
                if let Outcome::Panic { msg, .. } = &r.outcome {
                    worst = if msg.contains("QUERY_CAP") { "querycap".into() } else if msg.contains("SAMPLE_CAP") { "abort".into() } else { "panic".into() };
                }
            }
            let shard = ctx.nruns % ctx.outs.len();
            let evs = vec![
                json!({"ev": "reset", "run": run, "planner": kind.name(), "mode": "real", "space": "rv2-res0", "lvs": 1, "maxd": 0, "rad": 0, "tol": 0,
                       "bias": "p", "seeded": true, "desc": desc}),
                json!({"ev": "probe", "name": "resolution-fraction", "kind": worst, "queries": queries}),
            ];
            for ev in &evs {
                writeln!(ctx.outs[shard], "{}", ev).unwrap();
                ctx.nevents += 1;
            }
            ctx.nruns += 1;
            ctx.index.push(json!({"run": run, "desc": desc}));
        }
    }
}

/// Re-setup on a DIFFERENT space: first a coarse, large, free world, then a fine-resolution small
/// world with a thin wall; nothing of the first space (resolution, extent) may leak into the second.
fn resetup_probe(ctx: &mut Ctx) {
    let space_a = RealVectorStateSpace::new(2, Some(vec![(0.0, 100.0), (0.0, 100.0)])).unwrap();
    let mut space_b = RealVectorStateSpace::new(2, Some(vec![(0.0, 10.0), (0.0, 10.0)])).unwrap();
    space_b.set_longest_valid_segment_fraction(0.01);
    let cl_a: Rc<dyn Fn(&RealVectorState) -> f64> = Rc::new(|_s| 1.0);
    let cl_b: Rc<dyn Fn(&RealVectorState) -> f64> = Rc::new(|s: &RealVectorState| sdf_box(&s.values, &[4.85, 2.0], &[5.15, 11.0]));
    for kind in [Kind::Rrt, Kind::Star, Kind::Conn, Kind::Prm] {
        ctx.run += 1;
        let run = ctx.run;
        let iters = 40u64;
        let desc = json!({"space": "rv2-resetup", "world": "coarse-free then fine-wall", "planner": kind.name(), "probe": "re-setup on a different space"});
        if ctx.list {
            println!("{}", json!({"run": run, "desc": desc}));
            continue;
        }
        if let Some(o) = ctx.only {
            if o != run {
                continue;
            }
        }
        if ctx.skip.contains(&run) {
            continue;
        }
        if let Some(pf) = &ctx.progress {
            std::fs::write(pf, format!("{}", run)).ok();
        }
        let params = Params { maxd: 30.0, bias: 0.1, radius: if kind == Kind::Prm { 6.0 } else { 40.0 }, build_ticks: 25, seed: Some(ctx.seed * 31 + run as u64) };
        let mk = |sp: &RealVectorStateSpace, cl: &Rc<dyn Fn(&RealVectorState) -> f64>, st: [f64; 2], g: [f64; 2], r: f64| {
            let cl = cl.clone();
            Problem {
                starts: vec![rv(&st)],
                goal: Rc::new(BallGoal { space: sp.clone(), center: rv(&g), r }) as Rc<dyn HGoal<RealVectorState>>,
                checker: Rc::new(move |s: &RealVectorState| cl(s) > 0.0) as Rc<dyn Fn(&RealVectorState) -> bool>,
                pd_key: None,
                vc_key: None,
            }
        };
        let problems = vec![mk(&space_a, &cl_a, [10.0, 10.0], [90.0, 90.0], 5.0), mk(&space_b, &cl_b, [1.0, 5.0], [9.0, 5.0], 0.5)];
        let calls: Vec<Call> = if kind == Kind::Prm {
            vec![Call::Setup(0), Call::Construct, Call::Solve(5), Call::Setup(1), Call::Construct, Call::Solve(5)]
        } else {
            vec![Call::Setup(0), Call::Solve(iters), Call::Setup(1), Call::Solve(iters)]
        };
        let cfg = RunCfg::default();
        let recs = run_history_spaces(kind, &params, &[space_a.clone(), space_b.clone()], &problems, &calls, &cfg, &|_, _| {});
        let geoms = [
            RealGeom { space: space_a.clone(), clearance: cl_a.clone(), label: "rv2-resetup".to_string() },
            RealGeom { space: space_b.clone(), clearance: cl_b.clone(), label: "rv2-resetup".to_string() },
        ];
        let (ga, gb) = (space_a.clone(), space_b.clone());
        let pinfo = vec![
            ProblemInfo { start: Some(rv(&[10.0, 10.0])), starts: vec![rv(&[10.0, 10.0])], goal_sat: Box::new(move |s: &RealVectorState| ga.distance(s, &rv(&[90.0, 90.0])) <= 5.0), feas: 1 },
            ProblemInfo { start: Some(rv(&[1.0, 5.0])), starts: vec![rv(&[1.0, 5.0])], goal_sat: Box::new(move |s: &RealVectorState| gb.distance(s, &rv(&[9.0, 5.0])) <= 0.5), feas: 1 },
        ];
        let mut an = Annot::new(&geoms[0], kind, params.clone());
        an.reset(run, desc.clone());
        for r in &recs {
            if let Call::Setup(i) = r.call {
                an.set_geom(&geoms[i]);
            }
            an.call(r, &pinfo);
        }
        let shard = ctx.nruns % ctx.outs.len();
        for ev in &an.out {
            writeln!(ctx.outs[shard], "{}", ev).unwrap();
            ctx.nevents += 1;
        }
        ctx.nruns += 1;
        ctx.index.push(json!({"run": run, "desc": desc}));
    }
}

/// Re-setup on a SUB-REGION of the first space with the SAME checker object (a caller who plans in
/// one environment and narrows the workspace): nothing sampled in the larger space may survive
/// into answers for the smaller one. A wall with a short way round inside the large space only.
fn shrink_probe(ctx: &mut Ctx) {
    let space_a = RealVectorStateSpace::new(2, Some(vec![(0.0, 4.0), (0.0, 8.0)])).unwrap();
    let space_b = RealVectorStateSpace::new(2, Some(vec![(0.0, 4.0), (0.0, 6.0)])).unwrap();
    let cl: Rc<dyn Fn(&RealVectorState) -> f64> = Rc::new(|s: &RealVectorState| sdf_box(&s.values, &[1.8, 1.0], &[2.2, 7.0]));
    for kind in [Kind::Rrt, Kind::Star, Kind::Conn, Kind::Prm] {
        ctx.run += 1;
        let run = ctx.run;
        let iters = 60u64;
        let desc = json!({"space": "rv2-shrink", "world": "wall, way round only in the larger space", "planner": kind.name(),
                          "probe": "re-setup on a sub-region with the same checker object"});
        if ctx.list {
            println!("{}", json!({"run": run, "desc": desc}));
            continue;
        }
        if let Some(o) = ctx.only {
            if o != run {
                continue;
            }
        }
        if ctx.skip.contains(&run) {
            continue;
        }
        if let Some(pf) = &ctx.progress {
            std::fs::write(pf, format!("{}", run)).ok();
        }
        let params = Params { maxd: 1.0, bias: 0.1, radius: if kind == Kind::Prm { 1.6 } else { 1.5 }, build_ticks: 90, seed: Some(ctx.seed * 37 + run as u64) };
        let mk = |sp: &RealVectorStateSpace, key: usize| {
            let cl = cl.clone();
            Problem {
                starts: vec![rv(&[1.0, 5.5])],
                goal: Rc::new(BallGoal { space: sp.clone(), center: rv(&[3.0, 5.5]), r: 0.4 }) as Rc<dyn HGoal<RealVectorState>>,
                checker: Rc::new(move |s: &RealVectorState| cl(s) > 0.0) as Rc<dyn Fn(&RealVectorState) -> bool>,
                pd_key: Some(key),
                vc_key: Some(0),
            }
        };
        let problems = vec![mk(&space_a, 0), mk(&space_b, 1)];
        let calls: Vec<Call> = if kind == Kind::Prm {
            vec![Call::Setup(0), Call::Construct, Call::Solve(5), Call::Setup(1), Call::Construct, Call::Solve(5)]
        } else {
            vec![Call::Setup(0), Call::Solve(iters), Call::Setup(1), Call::Solve(iters)]
        };
        let cfg = RunCfg::default();
        let recs = run_history_spaces(kind, &params, &[space_a.clone(), space_b.clone()], &problems, &calls, &cfg, &|_, _| {});
        let geoms = [
            RealGeom { space: space_a.clone(), clearance: cl.clone(), label: "rv2-shrink".to_string() },
            RealGeom { space: space_b.clone(), clearance: cl.clone(), label: "rv2-shrink".to_string() },
        ];
        let (ga, gb) = (space_a.clone(), space_b.clone());
        let pinfo = vec![
            ProblemInfo { start: Some(rv(&[1.0, 5.5])), starts: vec![rv(&[1.0, 5.5])], goal_sat: Box::new(move |s: &RealVectorState| ga.distance(s, &rv(&[3.0, 5.5])) <= 0.4), feas: 1 },
            ProblemInfo { start: Some(rv(&[1.0, 5.5])), starts: vec![rv(&[1.0, 5.5])], goal_sat: Box::new(move |s: &RealVectorState| gb.distance(s, &rv(&[3.0, 5.5])) <= 0.4), feas: 1 },
        ];
        let mut an = Annot::new(&geoms[0], kind, params.clone());
        an.reset(run, desc.clone());
        for r in &recs {
            if let Call::Setup(i) = r.call {
                an.set_geom(&geoms[i]);
            }
            an.call(r, &pinfo);
        }
        let shard = ctx.nruns % ctx.outs.len();
        for ev in &an.out {
            writeln!(ctx.outs[shard], "{}", ev).unwrap();
            ctx.nevents += 1;
        }
        ctx.nruns += 1;
        ctx.index.push(json!({"run": run, "desc": desc}));
    }
}

/// C06 / C08 probe: degenerate planner parameters (zero, negative, NaN, infinite step / radius / build
/// time). Whatever a planner makes of them, every call must return, and without panicking.
fn parameter_probe(ctx: &mut Ctx) {
    let vals: [(&str, f64); 4] = [("0", 0.0), ("-1", -1.0), ("nan", f64::NAN), ("inf", f64::INFINITY)];
    let mut cases: Vec<(Kind, String, Params)> = Vec::new();
    for kind in [Kind::Rrt, Kind::Star, Kind::Conn] {
        for (n, v) in vals {
            cases.push((kind, format!("max_distance={n}"), Params { maxd: v, bias: 0.1, radius: 2.0, build_ticks: 5, seed: Some(7) }));
        }
    }
    for kind in [Kind::Star, Kind::Prm] {
        for (n, v) in vals {
            cases.push((kind, format!("radius={n}"), Params { maxd: 1.0, bias: 0.1, radius: v, build_ticks: 5, seed: Some(7) }));
        }
    }
    cases.push((Kind::Prm, "build_time=nan".into(), Params { maxd: 1.0, bias: 0.1, radius: 2.0, build_ticks: u64::MAX, seed: Some(7) }));
    cases.push((Kind::Prm, "build_time=-1".into(), Params { maxd: 1.0, bias: 0.1, radius: 2.0, build_ticks: u64::MAX - 1, seed: Some(7) }));
    cases.push((Kind::Prm, "build_time=0".into(), Params { maxd: 1.0, bias: 0.1, radius: 2.0, build_ticks: 0, seed: Some(7) }));
    for (kind, name, params) in cases {
        ctx.run += 1;
        let run = ctx.run;
        let desc = json!({"space": "rv2-param", "world": "free", "planner": kind.name(), "parameter": name, "probe": "degenerate-parameter"});
        if ctx.list {
            println!("{}", json!({"run": run, "desc": desc}));
            continue;
        }
        if let Some(o) = ctx.only {
            if o != run {
                continue;
            }
        }
        if ctx.skip.contains(&run) {
            continue;
        }
        if let Some(pf) = &ctx.progress {
            std::fs::write(pf, format!("{}", run)).ok();
        }
        let space = RealVectorStateSpace::new(2, Some(vec![(0.0, 10.0), (0.0, 10.0)])).unwrap();
        let problem = Problem {
            starts: vec![rv(&[1.0, 1.0])],
            goal: Rc::new(BallGoal { space: space.clone(), center: rv(&[9.0, 9.0]), r: 0.5 }) as Rc<dyn HGoal<RealVectorState>>,
            checker: Rc::new(|_s: &RealVectorState| true),
            pd_key: None,
            vc_key: None,
        };
        let calls = if kind == Kind::Prm { vec![Call::Setup(0), Call::Construct, Call::Solve(5)] } else { vec![Call::Setup(0), Call::Solve(8)] };
        let cfg = RunCfg { query_cap: 200_000, ..RunCfg::default() };
        let recs = run_history(kind, &params, space, &[problem], &calls, &cfg);
        let mut worst = "ok".to_string();
        let mut site = String::new();
        let mut queries = 0usize;
        for r in &recs {
            queries += r.raw.iter().filter(|e| matches!(e, Raw::IsValid(..))).count();
            if let Outcome::Panic { msg, loc } = &r.outcome {
                if worst == "ok" {
                    worst = if msg.contains("QUERY_CAP") { "querycap".into() } else if msg.contains("SAMPLE_CAP") { "abort".into() } else { "panic".into() };
                    site = loc.clone();
                }
            }
        }
        let shard = ctx.nruns % ctx.outs.len();
        let evs = vec![
            json!({"ev": "reset", "run": run, "planner": kind.name(), "mode": "real", "space": "rv2-param", "lvs": 1, "maxd": 0, "rad": 0, "tol": 0,
                   "bias": "p", "seeded": true, "desc": desc}),
            json!({"ev": "probe", "name": format!("{}:{}", kind.name(), name), "kind": worst, "queries": queries, "site": site}),
        ];
        for ev in &evs {
            writeln!(ctx.outs[shard], "{}", ev).unwrap();
            ctx.nevents += 1;
        }
        ctx.nruns += 1;
        ctx.index.push(json!({"run": run, "desc": desc}));
    }
}

/// PRM, `set_problem_definition` with a problem on a FINER space (same bounds, 50 times finer resolution):
/// the follow-up query's start connections must be checked at the resolution of the space now installed.
fn refine_probe(ctx: &mut Ctx) {
    let space_a = RealVectorStateSpace::new(2, Some(vec![(0.0, 10.0), (0.0, 10.0)])).unwrap();
    let mut space_b = space_a.clone();
    space_b.set_longest_valid_segment_fraction(0.0002);
    let cl: Rc<dyn Fn(&RealVectorState) -> f64> = Rc::new(|_s| 1.0);
    let kind = Kind::Prm;
    ctx.run += 1;
    let run = ctx.run;
    let desc = json!({"space": "rv2-refine", "world": "free", "planner": kind.name(), "probe": "set_problem_definition with a finer space"});
    if ctx.list {
        println!("{}", json!({"run": run, "desc": desc}));
        return;
    }
    if let Some(o) = ctx.only {
        if o != run {
            return;
        }
    }
    if ctx.skip.contains(&run) {
        return;
    }
    if let Some(pf) = &ctx.progress {
        std::fs::write(pf, format!("{}", run)).ok();
    }
    let params = Params { maxd: 1.0, bias: 0.1, radius: 2.0, build_ticks: 250, seed: Some(ctx.seed * 41 + run as u64) };
    let mk = |sp: &RealVectorStateSpace, st: [f64; 2], g: [f64; 2], key: usize| {
        let cl = cl.clone();
        Problem {
            starts: vec![rv(&st)],
            goal: Rc::new(BallGoal { space: sp.clone(), center: rv(&g), r: 1.2 }) as Rc<dyn HGoal<RealVectorState>>,
            checker: Rc::new(move |s: &RealVectorState| cl(s) > 0.0) as Rc<dyn Fn(&RealVectorState) -> bool>,
            pd_key: Some(key),
            vc_key: Some(0),
        }
    };
    let problems = vec![mk(&space_a, [1.0, 1.0], [9.0, 9.0], 0), mk(&space_b, [1.5, 5.0], [9.0, 5.0], 1)];
    let calls = vec![Call::Setup(0), Call::Construct, Call::Solve(5), Call::SetPd(1), Call::Solve(5)];
    let cfg = RunCfg::default();
    let recs = run_history_spaces(kind, &params, &[space_a.clone(), space_b.clone()], &problems, &calls, &cfg, &|_, _| {});
    let geoms = [
        RealGeom { space: space_a.clone(), clearance: cl.clone(), label: "rv2-refine".to_string() },
        RealGeom { space: space_b.clone(), clearance: cl.clone(), label: "rv2-refine".to_string() },
    ];
    let (ga, gb) = (space_a.clone(), space_b.clone());
    let pinfo = vec![
        ProblemInfo { start: Some(rv(&[1.0, 1.0])), starts: vec![rv(&[1.0, 1.0])], goal_sat: Box::new(move |s: &RealVectorState| ga.distance(s, &rv(&[9.0, 9.0])) <= 1.2), feas: 1 },
        ProblemInfo { start: Some(rv(&[1.5, 5.0])), starts: vec![rv(&[1.5, 5.0])], goal_sat: Box::new(move |s: &RealVectorState| gb.distance(s, &rv(&[9.0, 5.0])) <= 1.2), feas: 1 },
    ];
    let mut an = Annot::new(&geoms[0], kind, params.clone());
    an.reset(run, desc.clone());
    for r in &recs {
        if let Call::SetPd(i) = r.call {
            an.set_geom(&geoms[i]);
        }
        an.call(r, &pinfo);
    }
    let shard = ctx.nruns % ctx.outs.len();
    for ev in &an.out {
        writeln!(ctx.outs[shard], "{}", ev).unwrap();
        ctx.nevents += 1;
    }
    ctx.nruns += 1;
    ctx.index.push(json!({"run": run, "desc": desc}));
}

fn main() {
    let args: Vec<String> = std::env::args().collect();
    let mut outp = String::from("/dev/null");
    let mut shards = 1usize;
    let mut progress: Option<String> = None;
    let mut skip: std::collections::HashSet<usize> = Default::default();
    let mut seed = 1u64;
    let mut tier = String::from("quick");
    let mut only = None;
    let mut list = false;
    let mut i = 1;
    while i < args.len() {
        match args[i].as_str() {
            "--out" => {
                outp = args[i + 1].clone();
                i += 1
            }
            "--shards" => {
                shards = args[i + 1].parse().unwrap();
                i += 1
            }
            "--progress" => {
                progress = Some(args[i + 1].clone());
                i += 1
            }
            "--skip" => {
                skip = args[i + 1].split(',').filter(|x| !x.is_empty()).map(|x| x.parse().unwrap()).collect();
                i += 1
            }
            "--seed" => {
                seed = args[i + 1].parse().unwrap();
                i += 1
            }
            "--tier" => {
                tier = args[i + 1].clone();
                i += 1
            }
            "--only" => {
                only = Some(args[i + 1].parse().unwrap());
                i += 1
            }
            "--list" => list = true,
            _ => {}
        }
        i += 1;
    }
    install_panic_hook();
    let outs: Vec<BufWriter<std::fs::File>> = (0..shards)
        .map(|k| {
            let name = if shards == 1 { outp.clone() } else { format!("{outp}.{k}") };
            BufWriter::new(std::fs::File::create(name).unwrap())
        })
        .collect();
    let mut ctx = Ctx { progress, skip, outs, run: 0, only, list, seed, tier: tier.clone(), nevents: 0, nruns: 0, index: vec![] };
    exec_sets(&mut ctx, rv_sets(&tier), None);
    exec_sets(&mut ctx, so2_sets(&tier), None);
    // (another representation of the same rotation: the negated quaternion - distance exactly 0, other bits)
    exec_sets(&mut ctx, so3_sets(&tier), Some(|q: &SO3State| SO3State::new(-q.x, -q.y, -q.z, -q.w)));
    exec_sets(&mut ctx, cmp_sets(&tier), None);
    exec_sets(&mut ctx, se2_sets(&tier), None);
    exec_sets(&mut ctx, se3_sets(&tier), Some(|s: &SE3State| { let q = s.get_rotation(); SE3State::new(s.get_x(), s.get_y(), s.get_z(), SO3State::new(-q.x, -q.y, -q.z, -q.w)) }));
    resolution_zero_probe(&mut ctx);
    resetup_probe(&mut ctx);
    shrink_probe(&mut ctx);
    parameter_probe(&mut ctx);
    refine_probe(&mut ctx);
    for o in ctx.outs.iter_mut() {
        o.flush().unwrap();
    }
    eprintln!("{}", json!({"runs": ctx.nruns, "events": ctx.nevents, "index": ctx.index}));
    let _ = StdRng::seed_from_u64(0).next_u32();
}
