//! Spec -> implementation: executes TLC-generated input histories on the REAL planners over a
//! lattice space and writes the annotated trace for the TLC monitor.
//!
//!   latreplay --in hist.ndjson --out trace.ndjson [--shards K]
//!   latreplay --tables line5,ring6,grid3x3        (prints D / Geo tables as JSON)

use rand::{rngs::StdRng, Rng, RngCore, SeedableRng};
use serde_json::{json, Value};
use std::collections::{HashMap, HashSet};
use std::io::{BufRead, BufWriter, Write};
use std::rc::Rc;
use vharness::annot::{Annot, ProblemInfo};
use vharness::drive::*;
use vharness::geom::LatGeom;
use vharness::lattice::*;

fn tables(list: &str) {
    let mut out = Vec::new();
    for name in list.split(',') {
        let t = Topo::parse(name);
        let n = t.npoints();
        let mut d = Vec::new();
        let mut geo = Vec::new();
        for a in 0..n {
            let mut row = Vec::new();
            let mut grow = Vec::new();
            for b in 0..n {
                row.push(t.d(a, b));
                let seg: Vec<i64> = (0..=t.d(a, b)).map(|k| t.geo(a, b, k)).collect();
                grow.push(seg);
            }
            d.push(row);
            geo.push(grow);
        }
        out.push(json!({"topo": name, "d": d, "geo": geo}));
    }
    println!("{}", Value::Array(out));
}

/// seed whose stream realises the goal/uniform pattern (each iteration: one Bernoulli word, then
/// one sampler word)
fn seed_for(pattern: &[bool], bias: f64, cache: &mut HashMap<Vec<bool>, u64>) -> u64 {
    if let Some(s) = cache.get(pattern) {
        return *s;
    }
    for seed in 0..2_000_000u64 {
        let mut r = StdRng::seed_from_u64(seed);
        let mut ok = true;
        for want in pattern {
            let b = r.random_bool(bias);
            let _ = r.next_u64();
            if b != *want {
                ok = false;
                break;
            }
        }
        if ok {
            cache.insert(pattern.to_vec(), seed);
            return seed;
        }
    }
    0
}

fn main() {
    let args: Vec<String> = std::env::args().collect();
    let mut inp = String::new();
    let mut outp = String::new();
    let mut shards = 1usize;
    let mut i = 1;
    while i < args.len() {
        match args[i].as_str() {
            "--tables" => {
                tables(&args[i + 1]);
                return;
            }
            "--in" => {
                inp = args[i + 1].clone();
                i += 1
            }
            "--out" => {
                outp = args[i + 1].clone();
                i += 1
            }
            "--shards" => {
                shards = args[i + 1].parse().unwrap();
                i += 1
            }
            _ => {}
        }
        i += 1;
    }
    install_panic_hook();
    let f = std::fs::File::open(&inp).expect("open input");
    let mut outs: Vec<BufWriter<std::fs::File>> = (0..shards)
        .map(|k| {
            let name = if shards == 1 { outp.clone() } else { format!("{outp}.{k}") };
            BufWriter::new(std::fs::File::create(name).unwrap())
        })
        .collect();
    let mut cache: HashMap<Vec<bool>, u64> = HashMap::new();
    let mut nruns = 0usize;
    let mut nevents = 0usize;
    let mut overruns = 0usize;
    let mut distinct_snaps: HashSet<String> = HashSet::new();
    for (lineno, line) in std::io::BufReader::new(f).lines().enumerate() {
        let line = line.unwrap();
        if line.trim().is_empty() {
            continue;
        }
        let h: Value = serde_json::from_str(&line).expect("hist json");
        let kind = Kind::parse(h["planner"].as_str().unwrap_or("rrt"));
        let tk = h["topo"]["kind"].as_str().unwrap();
        let n = h["topo"]["n"].as_i64().unwrap();
        let w = h["topo"]["w"].as_i64().unwrap();
        let topo = match tk {
            "line" => Topo::Line(n),
            "ring" => Topo::Ring(n),
            _ => Topo::Grid(w, n / w),
        };
        let lvs = h["lvs"].as_i64().unwrap();
        let maxd = h["maxd"].as_i64().unwrap_or(1) as f64;
        let radius = h["rad2"].as_i64().unwrap_or(0) as f64 / 2.0;
        let bias_s = h["bias"].as_str().unwrap_or("0");
        let bias = match bias_s {
            "0" => 0.0,
            "1" => 1.0,
            "p" => 0.5,
            other => other.parse::<f64>().unwrap_or(0.5),
        };
        let seeded = h["seeded"].as_bool().unwrap_or(true);
        let valid: HashSet<i64> = h["valid"].as_array().unwrap().iter().map(|v| v.as_i64().unwrap()).collect();
        let build_ticks = h["build"].as_u64().unwrap_or(0);

        let space = LatticeSpace::new(topo, lvs as f64);
        let script = space.script.clone();
        // calls and script
        let mut calls = Vec::new();
        let mut pattern = Vec::new();
        {
            let mut sc = script.borrow_mut();
            for c in h["calls"].as_array().unwrap() {
                match c["c"].as_str().unwrap() {
                    "setup" => {
                        calls.push(Call::Setup(c["i"].as_u64().unwrap() as usize - 1));
                        if let Some(g) = c.get("g").and_then(|g| g.as_i64()) {
                            sc.setup_goal.push_back(if g < 0 { Scripted::Fail } else { Scripted::Point(g) });
                        }
                    }
                    "solve" => calls.push(Call::Solve(c["t"].as_u64().unwrap())),
                    "construct" => calls.push(Call::Construct),
                    "setpd" => calls.push(Call::SetPd(c["i"].as_u64().unwrap() as usize - 1)),
                    "it" | "ps" => {
                        let q = c["q"].as_i64().unwrap();
                        let k = c["k"].as_str().unwrap_or("u");
                        let e = if q < 0 { Scripted::Fail } else { Scripted::Point(q) };
                        pattern.push(k == "g");
                        sc.iters.push((e.clone(), e));
                    }
                    other => panic!("unknown call {other}"),
                }
            }
        }
        let seed = if !seeded {
            None
        } else if bias_s == "p" && kind != Kind::Prm {
            Some(seed_for(&pattern, bias, &mut cache))
        } else {
            Some(lineno as u64 + 1)
        };
        let params = Params { maxd, bias, radius, build_ticks, seed };
        let mut problems = Vec::new();
        let mut pinfo = Vec::new();
        for p in h["probs"].as_array().unwrap() {
            let starts: Vec<LState> = match p.get("starts") {
                Some(a) => a.as_array().unwrap().iter().map(|v| LState(v.as_i64().unwrap())).collect(),
                None => vec![LState(p["start"].as_i64().unwrap())],
            };
            let gset: HashSet<i64> = p["goal"].as_array().unwrap().iter().map(|v| v.as_i64().unwrap()).collect();
            {
                let mut sc = script.borrow_mut();
                sc.fallback_g = *gset.iter().min().unwrap_or(&0);
            }
            let v = valid.clone();
            let gs = gset.clone();
            pinfo.push(ProblemInfo {
                start: starts.first().cloned(),
                goal_sat: Box::new(move |s: &LState| gs.contains(&s.0)),
            });
            problems.push(Problem {
                starts,
                goal: Rc::new(LatGoal { set: gset, script: script.clone(), topo }),
                checker: Rc::new(move |s: &LState| v.contains(&s.0)),
            });
        }
        let cfg = RunCfg {
            fail_uniform_at: None,
            fail_goal_at: None,
            ..RunCfg::default()
        };
        // the driver needs to flag setup calls for the goal sampler
        let mut recs = Vec::new();
        {
            // run call by call so that in_setup can be toggled: run_history runs the whole list, so
            // we mark in_setup around it by splitting on Setup calls
            let marked: Vec<Call> = calls.clone();
            script.borrow_mut().in_setup = false;
            let hook_script = script.clone();
            let r = run_history_marked(kind, &params, space.clone(), &problems, &marked, &cfg, &move |c: &Call, begin: bool| {
                if let Call::Setup(_) = c {
                    hook_script.borrow_mut().in_setup = begin;
                }
            });
            recs.extend(r);
        }
        let geom = LatGeom { topo, lvs, valid: valid.clone() };
        let mut an = Annot::new(&geom, kind, params.clone());
        an.reset(lineno + 1, json!({"line": lineno + 1}));
        for r in &recs {
            an.call(r, &pinfo);
        }
        overruns += script.borrow().overrun;
        if let Some(last) = an.out.last() {
            distinct_snaps.insert(format!("{}|{}", line_key(&h), last["snap"]));
        }
        let o = &mut outs[nruns % shards];
        for ev in &an.out {
            writeln!(o, "{}", ev).unwrap();
            nevents += 1;
        }
        nruns += 1;
    }
    for o in outs.iter_mut() {
        o.flush().unwrap();
    }
    eprintln!(
        "{}",
        json!({"runs": nruns, "events": nevents, "script_overruns": overruns, "distinct_final_snapshots": distinct_snaps.len()})
    );
}

fn line_key(h: &Value) -> String {
    format!("{}{}{}", h["topo"], h["valid"], h["probs"])
}
