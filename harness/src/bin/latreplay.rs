//! Spec -> implementation: executes TLC-generated input histories on the REAL planners over a
//! lattice space and writes the annotated trace for the TLC monitor.
//!
//!   latreplay --in hist.ndjson --out trace.ndjson [--shards K] [--twice] [--seed N]
//!   latreplay --tables line5,ring6,grid3x3        (prints D / Geo tables as JSON)
//!
//! --twice: every history is executed on two planner instances created with the same seed and
//! the generator draws / results of both are emitted as `stream` events (C07).

use rand::{rngs::StdRng, Rng, RngCore, SeedableRng};
use serde_json::{json, Value};
use std::collections::{HashMap, HashSet};
use std::io::{BufRead, BufWriter, Write};
use std::rc::Rc;
use vharness::annot::{Annot, ProblemInfo};
use vharness::codec::Bits;
use vharness::drive::*;
use vharness::geom::LatGeom;
use vharness::instr::{Draw, Raw};
use vharness::lattice::*;

fn tables(list: &str) {
    let mut out = Vec::new();
    for name in list.split(',') {
        let t = Topo::parse(name);
        let n = t.npoints();
        let mut d = Vec::new();
        let mut geo = Vec::new();
        for a in 0..n {
            let mut row = Vec::new();
            let mut grow = Vec::new();
            for b in 0..n {
                row.push(t.d(a, b));
                let seg: Vec<i64> = (0..=t.d(a, b)).map(|k| t.geo(a, b, k)).collect();
                grow.push(seg);
            }
            d.push(row);
            geo.push(grow);
        }
        out.push(json!({"topo": name, "d": d, "geo": geo}));
    }
    println!("{}", Value::Array(out));
}

/// seed whose stream realises the goal/uniform pattern (each iteration: one Bernoulli word, then
/// one sampler word)
fn seed_for(pattern: &[bool], bias: f64, cache: &mut HashMap<Vec<bool>, u64>) -> u64 {
    if let Some(s) = cache.get(pattern) {
        return *s;
    }
    for seed in 0..2_000_000u64 {
        let mut r = StdRng::seed_from_u64(seed);
        let mut ok = true;
        for want in pattern {
            let b = r.random_bool(bias);
            let _ = r.next_u64();
            if b != *want {
                ok = false;
                break;
            }
        }
        if ok {
            cache.insert(pattern.to_vec(), seed);
            return seed;
        }
    }
    0
}

struct Parsed {
    kind: Kind,
    topo: Topo,
    lvs: i64,
    params: Params,
    /// the validity sets of the two checkers a history may install (equal unless the history says otherwise)
    worlds: Vec<HashSet<i64>>,
    calls: Vec<Call>,
    iters: Vec<(Scripted, Scripted)>,
    setup_goal: Vec<Scripted>,
    probs: Vec<(Vec<LState>, HashSet<i64>)>,
    cfg_fail_u: Option<u64>,
    cfg_fail_g: Option<u64>,
}

fn parse(h: &Value, lineno: usize, vseed: u64, cache: &mut HashMap<Vec<bool>, u64>) -> Parsed {
    let kind = Kind::parse(h["planner"].as_str().unwrap_or("rrt"));
    let tk = h["topo"]["kind"].as_str().unwrap();
    let n = h["topo"]["n"].as_i64().unwrap();
    let w = h["topo"]["w"].as_i64().unwrap();
    let topo = match tk {
        "line" => Topo::Line(n),
        "ring" => Topo::Ring(n),
        _ => Topo::Grid(w, n / w),
    };
    let lvs = h["lvs"].as_i64().unwrap();
    let maxd = h["maxd"].as_i64().unwrap_or(1) as f64;
    let radius = h["rad2"].as_i64().unwrap_or(0) as f64 / 2.0;
    let bias_s = h["bias"].as_str().unwrap_or("0");
    let mut bias = match bias_s {
        "0" => 0.0,
        "1" => 1.0,
        "p" => 0.5,
        other => other.parse::<f64>().unwrap_or(0.5),
    };
    let seeded = h["seeded"].as_bool().unwrap_or(true);
    let setof = |v: &Value| -> HashSet<i64> { v.as_array().unwrap().iter().map(|v| v.as_i64().unwrap()).collect() };
    let worlds: Vec<HashSet<i64>> = match h.get("worlds").and_then(|w| w.as_array()) {
        Some(ws) => ws.iter().map(setof).collect(),
        None => vec![setof(&h["valid"]), setof(&h["valid"])],
    };
    let nw = worlds.len();
    let build_ticks = h["build"].as_u64().unwrap_or(0);
    let fault_kind = h["fault"]["f"].as_str().unwrap_or("none").to_string();
    let fault_k = h["fault"]["k"].as_u64().unwrap_or(0);
    if fault_kind == "bias" {
        bias = match fault_k {
            1 => -0.1,
            2 => 1.5,
            _ => f64::NAN,
        }
    }
    let mut calls = Vec::new();
    let mut pattern = Vec::new();
    let mut iters = Vec::new();
    let mut setup_goal = Vec::new();
    for c in h["calls"].as_array().unwrap() {
        match c["c"].as_str().unwrap() {
            "setup" => {
                // setup(problem i, checker v): entry (i, v) of the problem x checker table; without `v`
                // every problem comes with a checker object of its own, as before
                let pi = c["i"].as_u64().unwrap() as usize - 1;
                let vi = c.get("v").and_then(|v| v.as_u64()).map(|v| v as usize - 1).unwrap_or(pi % nw);
                calls.push(Call::Setup(pi * nw + vi));
                if let Some(g) = c.get("g").and_then(|g| g.as_i64()) {
                    setup_goal.push(Scripted::Point(g));
                }
            }
            "solve" => {
                let t = c["t"].as_u64().unwrap_or(h["solve_t"].as_u64().unwrap_or(3));
                // i = 1: a time limit that runs out during the call
                if c.get("i").and_then(|x| x.as_u64()) == Some(1) {
                    calls.push(Call::SolveTicking(0))
                } else {
                    calls.push(Call::Solve(t))
                }
            }
            "setparams" => {
                let a = &h["alt"];
                let b = match a["bias"].as_str().unwrap_or("p") {
                    "0" => 0.0,
                    "1" => 1.0,
                    _ => 0.5,
                };
                calls.push(Call::SetParams(Params { maxd: a["maxd"].as_i64().unwrap_or(1) as f64, bias: b,
                                                    radius: a["rad2"].as_i64().unwrap_or(0) as f64 / 2.0, build_ticks, seed: None }));
            }
            "construct" => calls.push(Call::Construct),
            "setpd" => calls.push(Call::SetPd((c["i"].as_u64().unwrap() as usize - 1) * nw)),
            "it" | "ps" => {
                let q = c["q"].as_i64().unwrap();
                let k = c["k"].as_str().unwrap_or("u");
                pattern.push(k == "g");
                iters.push((Scripted::Point(q), Scripted::Point(q)));
            }
            other => panic!("unknown call {other}"),
        }
    }
    if h["autoscript"].as_bool().unwrap_or(false) {
        let mut r = StdRng::seed_from_u64(vseed.wrapping_mul(0x9E3779B97F4A7C15) ^ (lineno as u64));
        let np = topo.npoints();
        for _ in 0..64 {
            let a = r.random_range(0..np);
            iters.push((Scripted::Point(a), Scripted::Point(-1)));
        }
    }
    let seed = if !seeded {
        None
    } else if bias_s == "p" && kind != Kind::Prm && fault_kind != "bias" && !pattern.is_empty() {
        Some(seed_for(&pattern, bias, cache))
    } else {
        Some(lineno as u64 + 1 + vseed * 1000003)
    };
    let mut probs = Vec::new();
    for p in h["probs"].as_array().unwrap() {
        let starts: Vec<LState> = if fault_kind == "nostart" {
            vec![]
        } else {
            // a problem definition may list further start states
            let mut v = vec![LState(p["start"].as_i64().unwrap())];
            if let Some(s2) = p.get("start2").and_then(|x| x.as_i64()) {
                v.push(LState(s2));
            }
            v
        };
        let gset: HashSet<i64> = p["goal"].as_array().unwrap().iter().map(|v| v.as_i64().unwrap()).collect();
        probs.push((starts, gset));
    }
    Parsed {
        kind,
        topo,
        lvs,
        params: Params { maxd, bias, radius, build_ticks, seed },
        worlds,
        calls,
        iters,
        setup_goal,
        probs,
        cfg_fail_u: if fault_kind == "ufail" { Some(fault_k) } else { None },
        cfg_fail_g: if fault_kind == "gfail" { Some(fault_k) } else { None },
    }
}

fn run_once(p: &Parsed, query_ns: u64) -> (Vec<CallRec<LState>>, usize) {
    let space = LatticeSpace::new(p.topo, p.lvs as f64);
    let script = space.script.clone();
    {
        let mut sc = script.borrow_mut();
        sc.iters = p.iters.clone();
        sc.setup_goal = p.setup_goal.iter().cloned().collect();
    }
    // the table of (problem definition, checker) combinations: same problem => same Arc<ProblemDefinition>,
    // same checker => same checker Arc (identity matters to caches keyed on it)
    let mut problems = Vec::new();
    for (pi, (starts, gset)) in p.probs.iter().enumerate() {
        for (vi, w) in p.worlds.iter().enumerate() {
            let v = w.clone();
            problems.push(Problem {
                starts: starts.clone(),
                goal: Rc::new(LatGoal { set: gset.clone(), script: script.clone(), topo: p.topo }),
                checker: Rc::new(move |s: &LState| v.contains(&s.0)),
                pd_key: Some(pi),
                vc_key: Some(vi),
            });
        }
    }
    let cfg = RunCfg { fail_uniform_at: p.cfg_fail_u, fail_goal_at: p.cfg_fail_g, query_ns, ..RunCfg::default() };
    let hook_script = script.clone();
    let recs = run_history_marked(p.kind, &p.params, space, &problems, &p.calls, &cfg, &move |c: &Call, begin: bool| {
        if let Call::Setup(_) = c {
            hook_script.borrow_mut().in_setup = begin;
        }
    });
    let over = script.borrow().overrun;
    (recs, over)
}

/// per call: (generator-draw digest, result digest) as interned integers
fn digests(recs: &[CallRec<LState>], ids: &mut HashMap<String, usize>) -> Vec<(Vec<usize>, usize, bool)> {
    let mut id = |s: String| -> usize {
        let n = ids.len() + 1;
        *ids.entry(s).or_insert(n)
    };
    let mut out = Vec::new();
    for r in recs {
        let mut ds = Vec::new();
        for e in &r.raw {
            match e {
                Raw::SampleUniform(res, _, draws) | Raw::SampleGoal(res, _, draws) => {
                    let k = if matches!(e, Raw::SampleUniform(..)) { "U" } else { "G" };
                    let dd: Vec<String> = draws
                        .iter()
                        .map(|d| match d {
                            Draw::U32(v) => format!("a{v}"),
                            Draw::U64(v) => format!("b{v}"),
                            Draw::Fill(b) => format!("c{b:?}"),
                        })
                        .collect();
                    let rs = match res {
                        Ok(s) => format!("{:?}", s.bits()),
                        Err(e) => e.clone(),
                    };
                    ds.push(id(format!("{k}|{}|{rs}", dd.join(","))));
                }
                _ => {}
            }
        }
        let o = match &r.outcome {
            Outcome::Unit => "unit".to_string(),
            Outcome::Path(p) => format!("path{:?}", p.iter().map(|s| s.bits()).collect::<Vec<_>>()),
            Outcome::Err(k) => format!("err:{k}"),
            Outcome::Panic { loc, .. } => format!("panic:{loc}"),
        };
        out.push((ds, id(o), matches!(r.outcome, Outcome::Panic { .. })));
    }
    out
}

fn main() {
    let args: Vec<String> = std::env::args().collect();
    let mut inp = String::new();
    let mut outp = String::new();
    let mut shards = 1usize;
    let mut progress: Option<String> = None;
    let mut skip: std::collections::HashSet<usize> = Default::default();
    let mut twice = false;
    let mut vseed = 1u64;
    let mut i = 1;
    while i < args.len() {
        match args[i].as_str() {
            "--tables" => {
                tables(&args[i + 1]);
                return;
            }
            "--in" => {
                inp = args[i + 1].clone();
                i += 1
            }
            "--out" => {
                outp = args[i + 1].clone();
                i += 1
            }
            "--shards" => {
                shards = args[i + 1].parse().unwrap();
                i += 1
            }
            "--progress" => {
                progress = Some(args[i + 1].clone());
                i += 1
            }
            "--skip" => {
                skip = args[i + 1].split(',').filter(|x| !x.is_empty()).map(|x| x.parse().unwrap()).collect();
                i += 1
            }
            "--twice" => twice = true,
            "--seed" => {
                vseed = args[i + 1].parse().unwrap();
                i += 1
            }
            _ => {}
        }
        i += 1;
    }
    install_panic_hook();
    let f = std::fs::File::open(&inp).expect("open input");
    let mut outs: Vec<BufWriter<std::fs::File>> = (0..shards)
        .map(|k| {
            let name = if shards == 1 { outp.clone() } else { format!("{outp}.{k}") };
            BufWriter::new(std::fs::File::create(name).unwrap())
        })
        .collect();
    let mut cache: HashMap<Vec<bool>, u64> = HashMap::new();
    let mut nruns = 0usize;
    let mut nevents = 0usize;
    let mut overruns = 0usize;
    let mut distinct_snaps: HashSet<String> = HashSet::new();
    for (lineno, line) in std::io::BufReader::new(f).lines().enumerate() {
        let line = line.unwrap();
        if line.trim().is_empty() {
            continue;
        }
        if skip.contains(&(lineno + 1)) {
            continue;
        }
        if let Some(pf) = &progress {
            std::fs::write(pf, format!("{}", lineno + 1)).ok();
        }
        let h: Value = serde_json::from_str(&line).expect("hist json");
        let p = parse(&h, lineno, vseed, &mut cache);
        let (recs, over) = run_once(&p, 0);
        overruns += over;
        let nw = p.worlds.len();
        let mut pinfo: Vec<ProblemInfo<LState>> = Vec::new();
        for (starts, gset) in &p.probs {
            for world in &p.worlds {
                let gs = gset.clone();
                // exact reachability through valid points by unit lattice steps
                let feas = match starts.first() {
                    None => 2u8,
                    Some(st) => {
                        // reachable from ANY listed start state the checker accepts (always including the
                        // first one: an invalid first start is C01's business)
                        let _ = st;
                        let mut seen: HashSet<i64> = HashSet::new();
                        let mut stack: Vec<i64> = Vec::new();
                        for (k, s) in starts.iter().enumerate() {
                            if (k == 0 || world.contains(&s.0)) && seen.insert(s.0) {
                                stack.push(s.0);
                            }
                        }
                        while let Some(a) = stack.pop() {
                            for b in 0..p.topo.npoints() {
                                if p.topo.d(a, b) == 1 && world.contains(&b) && seen.insert(b) {
                                    stack.push(b);
                                }
                            }
                        }
                        if gset.iter().any(|g| seen.contains(g) && (world.contains(g))) {
                            1
                        } else if p.lvs > 1 {
                            2 // a wall thinner than the resolution may legitimately be missed
                        } else {
                            0
                        }
                    }
                };
                pinfo.push(ProblemInfo { start: starts.first().cloned(), starts: starts.clone(), goal_sat: Box::new(move |s: &LState| gs.contains(&s.0)), feas });
            }
        }
        let geoms: Vec<LatGeom> = p.worlds.iter().map(|w| LatGeom { topo: p.topo, lvs: p.lvs, valid: w.clone() }).collect();
        let mut an = Annot::new(&geoms[0], p.kind, p.params.clone());
        an.nvc = Some(nw);
        an.reset(lineno + 1, json!({"line": lineno + 1}));
        for r in &recs {
            if let Call::Setup(c) = r.call {
                an.set_geom(&geoms[c % nw]);
            }
            an.call(r, &pinfo);
        }
        if let Some(last) = an.out.last() {
            distinct_snaps.insert(format!("{}{}{}{}|{}", h["topo"], h["valid"], h["worlds"], h["probs"], last["snap"]));
        }
        if twice {
            let (recs2, _) = run_once(&p, 0);
            let mut ids = HashMap::new();
            for (inst, rr) in [(1, &recs), (2, &recs2)] {
                for (ci, (ds, o, pan)) in digests(rr, &mut ids).into_iter().enumerate() {
                    an.out.push(json!({"ev": "stream", "inst": inst, "call": ci + 1, "draws": ds, "res": o, "pan": pan, "tag": "C07"}));
                }
            }
            // a third same-seed instance on a slower clock (every validity query costs a seventh of a tick, so
            // deadlines fall in the middle of iterations): timing may change how many iterations
            // complete, never what an iteration does
            if p.params.seed.is_some() {
                let (recs3, _) = run_once(&p, TICK_NS / 7);
                let mut tids = HashMap::new();
                if let (Some(a), Some(b)) = (vharness::timing::epochs(&recs, &mut tids), vharness::timing::epochs(&recs3, &mut tids)) {
                    an.out.push(json!({"ev": "timing", "a": a, "b": b}));
                }
            }
        }
        let o = &mut outs[nruns % shards];
        for ev in &an.out {
            writeln!(o, "{}", ev).unwrap();
            nevents += 1;
        }
        nruns += 1;
    }
    for o in outs.iter_mut() {
        o.flush().unwrap();
    }
    eprintln!(
        "{}",
        json!({"runs": nruns, "events": nevents, "script_overruns": overruns, "distinct_final_snapshots": distinct_snaps.len()})
    );
}
