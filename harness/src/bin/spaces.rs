//! Space functions: every lattice case (and its ulp / 2*pi / sign / scale representatives) is
//! evaluated on the REAL spaces; the result is abstracted to integers (nearest lattice multiple and
//! residual in tolerance units) plus law flags measured on the implementation's own outputs, and
//! written as one `sp` event per case for the TLC monitor spec/TraceSpaces.tla, which recomputes the
//! expected value from the exact lattice models of spec/Spaces.tla.
//!
//!   spaces --out trace.ndjson --seed N --tier quick|thorough [--shards K]

use oxmpl::base::{
    error::{StateSamplingError, StateSpaceError},
    space::{
        AnyStateSpace, CompoundStateSpace, RealVectorStateSpace, SE2StateSpace, SE3StateSpace, SO2StateSpace,
        SO3StateSpace, StateSpace,
    },
    state::{CompoundState, RealVectorState, SE2State, SE3State, SO2State, SO3State},
};
use rand::{rngs::StdRng, Rng, RngCore, SeedableRng};
use serde_json::{json, Value};
use std::io::{BufWriter, Write};
use std::panic::{catch_unwind, AssertUnwindSafe};
use vharness::drive::install_panic_hook;

const PI: f64 = std::f64::consts::PI;
const TOL: f64 = 1e-9; // SO(2), R^n, compounds of them
const TOL3: f64 = 1e-6; // SO(3): acos near 1 amplifies 1 ulp to ~5e-8

struct Out {
    outs: Vec<BufWriter<std::fs::File>>,
    n: usize,
}
impl Out {
    fn ev(&mut self, v: Value) {
        let k = self.n % self.outs.len();
        writeln!(self.outs[k], "{}", v).unwrap();
        self.n += 1;
    }
}

/// nearest multiple of `unit` and residual in units of `tol` (rounded up), both as integers
fn quant(x: f64, unit: f64, tol: f64) -> (i64, i64) {
    if !x.is_finite() {
        return (-999_999, 999_999);
    }
    let k = (x / unit).round();
    let resid = ((x - k * unit).abs() / tol).ceil();
    (k as i64, resid.min(999_999.0) as i64)
}

fn next_up(x: f64) -> f64 {
    f64::from_bits(if x >= 0.0 { x.to_bits() + 1 } else { x.to_bits() - 1 })
}
fn next_down(x: f64) -> f64 {
    if x == 0.0 {
        return -f64::MIN_POSITIVE;
    }
    f64::from_bits(if x > 0.0 { x.to_bits() - 1 } else { x.to_bits() + 1 })
}

fn so2_angle(k: i64, n: i64) -> f64 {
    -PI + 2.0 * PI * (k as f64) / (n as f64)
}

/// representatives of a lattice angle: (name, value, tolerance scale)
fn so2_reps(k: i64, n: i64, all: bool) -> Vec<(&'static str, f64, f64)> {
    let a = so2_angle(k, n);
    let mut v = vec![("exact", a, 1.0)];
    if all {
        v.push(("ulp+", next_up(a), 1.0));
        v.push(("ulp-", next_down(a), 1.0));
        v.push(("wind+1", a + 2.0 * PI, 4.0));
        v.push(("wind-2", a - 4.0 * PI, 8.0));
        v.push(("wind+1000", a + 2000.0 * PI, 1e4));
    }
    v
}

fn wrap(x: f64) -> f64 {
    (x + PI).rem_euclid(2.0 * PI) - PI
}

fn so2_cases(o: &mut Out, n: i64, tier: &str) {
    let sp = SO2StateSpace::new(None).unwrap();
    so2_metric_cases(o, n, tier, &sp, "none");
    // distance and interpolation are those of the circle whatever interval the space is bounded to
    // (an interval wider than pi contains pairs whose shortest arc leaves it)
    if n <= 12 || tier == "thorough" {
        for (name, b) in [("(-3,3)", (-3.0, 3.0)), ("(-0.5,2)", (-0.5, 2.0))] {
            let spb = SO2StateSpace::new(Some(b)).unwrap();
            so2_metric_cases(o, n, tier, &spb, name);
        }
    }
    so2_rest_cases(o, n, tier, &sp);
}

fn so2_metric_cases(o: &mut Out, n: i64, tier: &str, sp: &SO2StateSpace, bnd: &str) {
    let unit = 2.0 * PI / n as f64;
    // distance: all pairs, all representatives of a, exact b
    for a in 0..=n {
        for b in 0..=n {
            let allreps = a % 2 == 0 || tier == "thorough";
            for (rn, av, sc) in so2_reps(a, n, allreps) {
                let sa = SO2State { value: av };
                let sb = SO2State { value: so2_angle(b, n) };
                let d = sp.distance(&sa, &sb);
                let d2 = sp.distance(&sb, &sa);
                let (k, r) = quant(d, unit, TOL * sc);
                o.ev(json!({"ev": "sp", "sp": "so2", "op": "dist", "N": n, "a": a, "b": b, "rep": rn, "k": k, "resid": r, "bnd": bnd,
                            "sym": (d - d2).abs() <= TOL * sc, "nonneg": d >= 0.0, "diam": d <= PI + TOL * sc,
                            "self0": sp.distance(&sa, &sa).abs() <= TOL * sc}));
            }
        }
    }
    // interpolation
    for a in 0..=n {
        for b in 0..=n {
            for (p, q) in [(0, 1), (1, 4), (1, 3), (1, 2), (3, 4), (1, 1)] {
                for (rn, av, sc) in so2_reps(a, n, (a + b) % 3 == 0) {
                    if rn.starts_with("ulp") || rn == "wind+1000" {
                        continue;
                    }
                    let sa = SO2State { value: av };
                    let sb = SO2State { value: so2_angle(b, n) };
                    let t = p as f64 / q as f64;
                    let mut out = SO2State { value: 0.0 };
                    sp.interpolate(&sa, &sb, t, &mut out);
                    let fine = unit / q as f64;
                    let (k, r) = quant(out.value + PI, fine, TOL * sc * 4.0);
                    let mut rev = SO2State { value: 0.0 };
                    sp.interpolate(&sb, &sa, 1.0 - t, &mut rev);
                    let dab = sp.distance(&sa, &sb);
                    let prop = (sp.distance(&sa, &out) - t * dab).abs().max((sp.distance(&out, &sb) - (1.0 - t) * dab).abs());
                    o.ev(json!({"ev": "sp", "sp": "so2", "op": "interp", "N": n, "a": a, "b": b, "p": p, "q": q, "rep": rn, "bnd": bnd,
                                "k": k.rem_euclid(n * q as i64), "resid": r,
                                "canon": out.value >= -PI && out.value <= PI,
                                "rev": sp.distance(&out, &rev) <= TOL * sc * 8.0,
                                "prop": prop <= TOL * sc * 8.0}));
                }
            }
        }
    }
    let _ = bnd;
}

fn so2_rest_cases(o: &mut Out, n: i64, tier: &str, sp: &SO2StateSpace) {
    let unit = 2.0 * PI / n as f64;
    let _ = (tier, unit);
    // triangle inequality on the implementation's own values, all triples
    let mut worst = 0i64;
    let mut cnt = 0usize;
    for a in 0..=n {
        for b in 0..=n {
            for c in 0..=n {
                let (sa, sb, sc) = (SO2State { value: so2_angle(a, n) }, SO2State { value: so2_angle(b, n) }, SO2State { value: so2_angle(c, n) });
                let slack = sp.distance(&sa, &sc) - sp.distance(&sa, &sb) - sp.distance(&sb, &sc);
                worst = worst.max((slack / TOL).ceil() as i64);
                cnt += 1;
            }
        }
    }
    o.ev(json!({"ev": "sp", "sp": "so2", "op": "tri", "N": n, "triples": cnt, "worst": worst}));
    // bounds: constructor over the lattice of bound pairs (indices may lie outside 0..n: beyond +-pi)
    let ext: Vec<i64> = vec![-n / 4, 0, n / 4, n / 2, 3 * n / 4, n, n + n / 4];
    for &lo in &ext {
        for &hi in &ext {
            let (lov, hiv) = (so2_angle(lo, n), so2_angle(hi, n));
            let res = SO2StateSpace::new(Some((lov, hiv)));
            match res {
                Err(e) => {
                    let kind = match e {
                        StateSpaceError::InvalidBound { .. } => "InvalidBound",
                        StateSpaceError::DimensionMismatch { .. } => "DimensionMismatch",
                        StateSpaceError::ZeroDimensionUnbounded => "ZeroDimensionUnbounded",
                        StateSpaceError::InvalidAngularDistance { .. } => "InvalidAngularDistance",
                    };
                    o.ev(json!({"ev": "sp", "sp": "so2", "op": "new", "N": n, "lo": lo, "hi": hi, "ok": false, "err": kind,
                                "slo": 0, "shi": 0, "sample": "n/a", "stored_wf": true}));
                }
                Ok(space) => {
                    let (slo, shi) = space.bounds;
                    let (klo, rlo) = quant(slo + PI, unit, TOL);
                    let (khi, rhi) = quant(shi + PI, unit, TOL);
                    let wf = slo < shi && slo >= -PI && shi <= PI && rlo <= 1 && rhi <= 1;
                    // every returned space must be usable: sample / enforce / satisfy without panicking
                    let mut rng = StdRng::seed_from_u64(7);
                    let sres = catch_unwind(AssertUnwindSafe(|| space.sample_uniform(&mut rng)));
                    let sample = match sres {
                        Err(_) => "panic".to_string(),
                        Ok(Err(_)) => "err".to_string(),
                        Ok(Ok(s)) => {
                            if space.satisfies_bounds(&s) {
                                "ok".to_string()
                            } else {
                                "out-of-bounds".to_string()
                            }
                        }
                    };
                    o.ev(json!({"ev": "sp", "sp": "so2", "op": "new", "N": n, "lo": lo, "hi": hi, "ok": true, "err": "",
                                "slo": klo, "shi": khi, "sample": sample, "stored_wf": wf}));
                    if !wf {
                        continue;
                    }
                    // enforce / satisfies on every lattice state and representative
                    for c in 0..=n {
                        for (rn, cv, sc) in so2_reps(c, n, true) {
                            if rn == "wind+1000" {
                                continue;
                            }
                            let orig = SO2State { value: cv };
                            let sat0 = space.satisfies_bounds(&orig);
                            let mut e1 = orig.clone();
                            let r1 = catch_unwind(AssertUnwindSafe(|| space.enforce_bounds(&mut e1)));
                            if r1.is_err() {
                                o.ev(json!({"ev": "sp", "sp": "so2", "op": "enforce", "N": n, "lo": klo, "hi": khi, "c": c, "rep": rn,
                                            "panic": true, "k": 0, "resid": 0, "sat0": sat0, "sat1": false, "idem": false, "canon": false,
                                            "unchanged": false, "canon0": false, "inside0": false}));
                                continue;
                            }
                            let sat1 = space.satisfies_bounds(&e1);
                            let mut e2 = e1.clone();
                            space.enforce_bounds(&mut e2);
                            let (k, r) = quant(wrap(e1.value) + PI, unit, TOL * sc * 4.0);
                            let canon0 = cv >= -PI && cv <= PI;
                            o.ev(json!({"ev": "sp", "sp": "so2", "op": "enforce", "N": n, "lo": klo, "hi": khi, "c": c, "rep": rn,
                                        "panic": false, "k": k.rem_euclid(n), "resid": r, "sat0": sat0, "sat1": sat1,
                                        "idem": (e2.value - e1.value).abs() <= TOL * sc,
                                        "canon": e1.value >= slo - TOL && e1.value <= shi + TOL,
                                        "unchanged": e1.value.to_bits() == cv.to_bits(), "canon0": canon0,
                                        "inside0": cv >= slo && cv <= shi}));
                        }
                    }
                    // sampling stays in bounds (seeded)
                    let mut rng = StdRng::seed_from_u64(11);
                    let mut allin = true;
                    let mut pan = false;
                    for _ in 0..50 {
                        match catch_unwind(AssertUnwindSafe(|| space.sample_uniform(&mut rng))) {
                            Ok(Ok(s)) => allin &= space.satisfies_bounds(&s),
                            Ok(Err(_)) => {}
                            Err(_) => pan = true,
                        }
                    }
                    o.ev(json!({"ev": "sp", "sp": "so2", "op": "samplesat", "N": n, "lo": klo, "hi": khi, "allin": allin, "panic": pan}));
                }
            }
        }
    }
    // state constructor: canonicalisation congruent mod 2*pi, result in [-pi, pi]
    for k in 0..=n {
        for w in [-1000i64, -3, -1, 0, 1, 2, 1000] {
            let raw = so2_angle(k, n) + 2.0 * PI * w as f64;
            let s = SO2State::new(raw);
            let sc = 1.0 + (w.abs() as f64) * 8.0;
            let (kk, r) = quant(s.value + PI, unit, TOL * sc);
            let se = SE2State::new(0.0, 0.0, raw);
            o.ev(json!({"ev": "sp", "sp": "so2", "op": "statenew", "N": n, "a": k, "w": w, "k": kk.rem_euclid(n), "resid": r,
                        "canon": s.value >= -PI && s.value <= PI, "se2same": se.get_yaw().to_bits() == s.value.to_bits()}));
        }
    }
    for mag in [1e-300, 1e-12, 1.0, 1e6, 1e15, 1e300, -1e300, -7.25e10] {
        let s = SO2State::new(mag);
        // congruence judged against the f64 constant: |wrap(mag) - value| modulo 2 pi
        let diff = wrap(mag - s.value);
        o.ev(json!({"ev": "sp", "sp": "so2", "op": "statebig", "canon": s.value >= -PI && s.value <= PI,
                    "congruent": diff.abs() <= 1e-9 * mag.abs().max(1.0), "finite": s.value.is_finite()}));
    }
}

// ----------------------------------------------------------------------------------------- R^n

fn rv_points(dim: usize, lo: i64, hi: i64) -> Vec<Vec<i64>> {
    let mut pts = vec![vec![]];
    for _ in 0..dim {
        let mut nx = Vec::new();
        for p in &pts {
            for c in lo..=hi {
                let mut q = p.clone();
                q.push(c);
                nx.push(q);
            }
        }
        pts = nx;
    }
    pts
}

fn rv_cases(o: &mut Out, tier: &str) {
    for dim in [1usize, 2, 3] {
        let (lo, hi) = if dim == 3 { (-1, 1) } else { (-2, 2) };
        let pts = rv_points(dim, lo, hi);
        let sp = RealVectorStateSpace::new(dim, Some(vec![(-10.0, 10.0); dim])).unwrap();
        let scale = if tier == "thorough" { 1e6 } else { 1.0 };
        for u in &pts {
            for v in &pts {
                for (rn, off, sc) in [("exact", 0.0, 1.0), ("shift1e6", 1e6, 1e7)] {
                    let su = RealVectorState::new(u.iter().map(|c| *c as f64 + off).collect());
                    let sv = RealVectorState::new(v.iter().map(|c| *c as f64 + off).collect());
                    let d = sp.distance(&su, &sv);
                    let d2 = sp.distance(&sv, &su);
                    let (k, r) = quant(d * d, 1.0, TOL * sc);
                    o.ev(json!({"ev": "sp", "sp": "rv", "op": "dist", "u": u, "v": v, "rep": rn, "k": k, "resid": r,
                                "sym": d == d2, "nonneg": d >= 0.0, "self0": sp.distance(&su, &su) == 0.0}));
                }
                // interpolation at t = p/4
                for p in 0..=4 {
                    let su = RealVectorState::new(u.iter().map(|c| *c as f64).collect());
                    let sv = RealVectorState::new(v.iter().map(|c| *c as f64).collect());
                    let mut out = su.clone();
                    sp.interpolate(&su, &sv, p as f64 / 4.0, &mut out);
                    let ks: Vec<i64> = out.values.iter().map(|x| quant(*x, 0.25, TOL).0).collect();
                    let rs: i64 = out.values.iter().map(|x| quant(*x, 0.25, TOL).1).max().unwrap_or(0);
                    let mut rev = su.clone();
                    sp.interpolate(&sv, &su, 1.0 - p as f64 / 4.0, &mut rev);
                    o.ev(json!({"ev": "sp", "sp": "rv", "op": "interp", "u": u, "v": v, "p": p, "q": 4, "k4": ks, "resid": rs,
                                "rev": sp.distance(&out, &rev) <= TOL}));
                }
            }
        }
        let _ = scale;
        // triangle on implementation values
        let mut worst = 0i64;
        let mut cnt = 0;
        for u in &pts {
            for v in &pts {
                for w in &pts {
                    let f = |p: &Vec<i64>| RealVectorState::new(p.iter().map(|c| *c as f64).collect());
                    let slack = sp.distance(&f(u), &f(w)) - sp.distance(&f(u), &f(v)) - sp.distance(&f(v), &f(w));
                    worst = worst.max((slack / TOL).ceil() as i64);
                    cnt += 1;
                }
            }
        }
        o.ev(json!({"ev": "sp", "sp": "rv", "op": "tri", "dim": dim, "triples": cnt, "worst": worst}));
    }
    // constructor lattice: symbolic values, index into SYM
    let sym: Vec<(&str, f64)> = vec![("-inf", f64::NEG_INFINITY), ("-2", -2.0), ("0", 0.0), ("1", 1.0), ("+inf", f64::INFINITY), ("nan", f64::NAN)];
    for dim in 0..=2usize {
        for len in 0..=2usize {
            // all bound vectors of this length over a reduced pair lattice
            let pairs: Vec<(usize, usize)> = (0..sym.len()).flat_map(|i| (0..sym.len()).map(move |j| (i, j))).collect();
            let combos: Vec<Vec<(usize, usize)>> = if len == 0 {
                vec![vec![]]
            } else if len == 1 {
                pairs.iter().map(|p| vec![*p]).collect()
            } else {
                // the full product: in particular an ill-formed interval before AND after an unbounded or
                // half-bounded one
                pairs.iter().flat_map(|p| pairs.iter().map(move |q| vec![*p, *q])).collect()
            };
            for combo in combos {
                let b: Vec<(f64, f64)> = combo.iter().map(|(i, j)| (sym[*i].1, sym[*j].1)).collect();
                let names: Vec<Vec<&str>> = combo.iter().map(|(i, j)| vec![sym[*i].0, sym[*j].0]).collect();
                rv_new_case(o, dim, Some(b), json!(names));
            }
        }
        rv_new_case(o, dim, None, json!("none"));
    }
}

fn rv_new_case(o: &mut Out, dim: usize, b: Option<Vec<(f64, f64)>>, names: Value) {
    let len = b.as_ref().map(|x| x.len() as i64).unwrap_or(-1);
    // argument classification (what the property calls well-formed)
    let wf_args = match &b {
        None => dim > 0,
        Some(v) => v.len() == dim && v.iter().all(|(l, h)| !l.is_nan() && !h.is_nan() && l < h),
    };
    let has_nan = b.as_ref().map(|v| v.iter().any(|(l, h)| l.is_nan() || h.is_nan())).unwrap_or(false);
    let inverted = b.as_ref().map(|v| v.iter().any(|(l, h)| l >= h)).unwrap_or(false);
    match RealVectorStateSpace::new(dim, b.clone()) {
        Err(e) => {
            let kind = match e {
                StateSpaceError::InvalidBound { .. } => "InvalidBound",
                StateSpaceError::DimensionMismatch { .. } => "DimensionMismatch",
                StateSpaceError::ZeroDimensionUnbounded => "ZeroDimensionUnbounded",
                StateSpaceError::InvalidAngularDistance { .. } => "InvalidAngularDistance",
            };
            o.ev(json!({"ev": "sp", "sp": "rv", "op": "new", "dim": dim, "len": len, "args": names, "ok": false, "err": kind,
                        "wf_args": wf_args, "has_nan": has_nan, "inverted": inverted, "stored_wf": true, "use": "n/a"}));
        }
        Ok(space) => {
            let stored_wf = space.bounds.len() == dim && space.bounds.iter().all(|(l, h)| !l.is_nan() && !h.is_nan() && l < h);
            let mut rng = StdRng::seed_from_u64(3);
            let usable = catch_unwind(AssertUnwindSafe(|| {
                let _ = space.sample_uniform(&mut rng);
                let mut s = RealVectorState::new(vec![0.5; dim]);
                space.enforce_bounds(&mut s);
                space.satisfies_bounds(&s)
            }));
            let usev = match usable {
                Err(_) => "panic",
                Ok(true) => "ok",
                Ok(false) => "enforce-not-sat",
            };
            o.ev(json!({"ev": "sp", "sp": "rv", "op": "new", "dim": dim, "len": len, "args": names, "ok": true, "err": "",
                        "wf_args": wf_args, "has_nan": has_nan, "inverted": inverted, "stored_wf": stored_wf, "use": usev}));
        }
    }
}

fn rv_bounds_cases(o: &mut Out) {
    // enforce / satisfy on boxes incl. half-bounded ones
    let boxes: Vec<Vec<(f64, f64)>> = vec![
        vec![(-1.0, 1.0), (0.0, 2.0)],
        vec![(f64::NEG_INFINITY, 1.0), (0.0, f64::INFINITY)],
        vec![(-1e-3, 1e-3), (-1e9, 1e9)],
    ];
    for (bi, b) in boxes.iter().enumerate() {
        let sp = RealVectorStateSpace::new(2, Some(b.clone())).unwrap();
        for x in [-1e12, -2.0, -1.0, -1e-3, 0.0, 0.5, 1.0, 2.0, 3.0, 1e12] {
            for y in [-5.0, 0.0, 1.0, 2.0, 2.0000000001, 7.0] {
                let orig = RealVectorState::new(vec![x, y]);
                let sat0 = sp.satisfies_bounds(&orig);
                let mut e1 = orig.clone();
                let r = catch_unwind(AssertUnwindSafe(|| sp.enforce_bounds(&mut e1)));
                let sat1 = r.is_ok() && sp.satisfies_bounds(&e1);
                let mut e2 = e1.clone();
                let _ = catch_unwind(AssertUnwindSafe(|| sp.enforce_bounds(&mut e2)));
                let expect: Vec<f64> = vec![x.max(b[0].0).min(b[0].1), y.max(b[1].0).min(b[1].1)];
                o.ev(json!({"ev": "sp", "sp": "rv", "op": "enforce", "box": bi, "panic": r.is_err(), "sat0": sat0, "sat1": sat1,
                            "idem": e1.values == e2.values, "unchanged": e1.values == orig.values,
                            "clamp": e1.values == expect}));
            }
        }
        // sampling: in bounds or the documented unbounded error, never a panic
        let mut rng = StdRng::seed_from_u64(5);
        let mut outcome = "ok";
        for _ in 0..50 {
            match catch_unwind(AssertUnwindSafe(|| sp.sample_uniform(&mut rng))) {
                Err(_) => outcome = "panic",
                Ok(Err(StateSamplingError::UnboundedDimension { .. })) => {
                    if outcome == "ok" {
                        outcome = "unbounded-err"
                    }
                }
                Ok(Err(_)) => outcome = "other-err",
                Ok(Ok(s)) => {
                    if !sp.satisfies_bounds(&s) {
                        outcome = "out-of-bounds"
                    }
                }
            }
        }
        let bounded = b.iter().all(|(l, h)| l.is_finite() && h.is_finite());
        o.ev(json!({"ev": "sp", "sp": "rv", "op": "samplesat", "box": bi, "bounded": bounded, "outcome": outcome}));
    }
}

// --------------------------------------------------------------------------------------- SO(3)

fn q_axis(ax: usize, j: i64, m: i64) -> SO3State {
    let h = PI * (j as f64) / (m as f64);
    let (s, c) = (h.sin(), h.cos());
    match ax {
        0 => SO3State::new(s, 0.0, 0.0, c),
        1 => SO3State::new(0.0, s, 0.0, c),
        _ => SO3State::new(0.0, 0.0, s, c),
    }
}

fn rot_index(q: &SO3State, ax: usize, unit: f64, tol: f64) -> (i64, i64, bool) {
    // rotation angle about the axis: 2 atan2(axis component, w), folded to [0, 2 pi)
    let comp = [q.x, q.y, q.z][ax];
    let off: f64 = [q.x, q.y, q.z].iter().enumerate().filter(|(i, _)| *i != ax).map(|(_, v)| v * v).sum::<f64>().sqrt();
    let ang = (2.0 * comp.atan2(q.w)).rem_euclid(2.0 * PI);
    let (k, r) = quant(ang, unit, tol);
    (k, r, off <= tol)
}

fn t24() -> Vec<[i64; 4]> {
    let mut v = Vec::new();
    for i in 0..4 {
        for s in [2i64, -2] {
            let mut u = [0i64; 4];
            u[i] = s;
            v.push(u);
        }
    }
    for a in [-1i64, 1] {
        for b in [-1i64, 1] {
            for c in [-1i64, 1] {
                for d in [-1i64, 1] {
                    v.push([a, b, c, d]);
                }
            }
        }
    }
    v
}

fn so3_cases(o: &mut Out, m: i64, tier: &str) {
    let sp = SO3StateSpace::new(None).unwrap();
    so3_axis_cases(o, m, tier, &sp);
    // the metric and the geodesics are those of SO(3) whatever cone the space is bounded to
    if m <= 12 || tier == "thorough" {
        let spb = SO3StateSpace::new(Some((SO3State::identity(), 2.6))).unwrap();
        so3_axis_cases(o, m, tier, &spb);
    }
    so3_group_cases(o, &sp);
}

fn so3_axis_cases(o: &mut Out, m: i64, tier: &str, sp: &SO3StateSpace) {
    let unit = 2.0 * PI / m as f64;
    for ax in 0..3usize {
        for a in 0..(2 * m) {
            for b in 0..(2 * m) {
                let (qa, qb) = (q_axis(ax, a, m), q_axis(ax, b, m));
                let d = sp.distance(&qa, &qb);
                let d2 = sp.distance(&qb, &qa);
                let (k, r) = quant(d, unit, TOL3);
                // scaled (non-unit) representative is NOT scale tolerant for distance: skipped
                o.ev(json!({"ev": "sp", "sp": "so3ax", "op": "dist", "M": m, "ax": ax, "a": a, "b": b, "k": k, "resid": r,
                            "sym": (d - d2).abs() <= TOL3, "nonneg": d >= 0.0, "diam": d <= PI + TOL3,
                            "self0": sp.distance(&qa, &qa).abs() <= TOL3}));
                if ax == 0 || tier == "thorough" {
                    for (p, q) in [(0, 1), (1, 4), (1, 2), (3, 4), (1, 1)] {
                        // exclude dot == 0 (hemisphere choice is a tie): |b - a| = M/2 mod M
                        let raw = (b - a).rem_euclid(2 * m);
                        let r1 = if raw > m { raw - 2 * m } else { raw };
                        if 2 * r1.abs() == m {
                            continue;
                        }
                        let mut out = qa.clone();
                        sp.interpolate(&qa, &qb, p as f64 / q as f64, &mut out);
                        let fine = unit / q as f64;
                        let (k, r, onax) = rot_index(&out, ax, fine, TOL3 * 4.0);
                        let nrm = (out.x * out.x + out.y * out.y + out.z * out.z + out.w * out.w).sqrt();
                        let mut rev = qa.clone();
                        sp.interpolate(&qb, &qa, 1.0 - p as f64 / q as f64, &mut rev);
                        let t = p as f64 / q as f64;
                        let prop = (sp.distance(&qa, &out) - t * d).abs().max((sp.distance(&out, &qb) - (1.0 - t) * d).abs());
                        o.ev(json!({"ev": "sp", "sp": "so3ax", "op": "interp", "M": m, "ax": ax, "a": a, "b": b, "p": p, "q": q,
                                    "k": k.rem_euclid(m * q as i64), "resid": r, "onaxis": onax, "unitq": (nrm - 1.0).abs() <= TOL3,
                                    "rev": sp.distance(&out, &rev) <= 8.0 * TOL3, "prop": prop <= 8.0 * TOL3}));
                    }
                }
            }
        }
    }
}

fn so3_group_cases(o: &mut Out, sp: &SO3StateSpace) {
    // binary tetrahedral group: exact distances in units of pi/3, triangle inequality on impl values
    let g = t24();
    let f = |u: &[i64; 4]| SO3State::new(u[0] as f64 / 2.0, u[1] as f64 / 2.0, u[2] as f64 / 2.0, u[3] as f64 / 2.0);
    for u in &g {
        for v in &g {
            let d = sp.distance(&f(u), &f(v));
            let neg = [-v[0], -v[1], -v[2], -v[3]];
            let dn = sp.distance(&f(u), &f(&neg));
            let (k, r) = quant(d, PI / 3.0, TOL3);
            o.ev(json!({"ev": "sp", "sp": "so3t", "op": "dist", "u": u, "v": v, "k": k, "resid": r, "negsame": (d - dn).abs() <= TOL3,
                        "diam": d <= PI + TOL3}));
        }
    }
    let mut worst = 0i64;
    let mut cnt = 0;
    for u in &g {
        for v in &g {
            for w in &g {
                let slack = sp.distance(&f(u), &f(w)) - sp.distance(&f(u), &f(v)) - sp.distance(&f(v), &f(w));
                worst = worst.max((slack / TOL3).ceil() as i64);
                cnt += 1;
            }
        }
    }
    o.ev(json!({"ev": "sp", "sp": "so3t", "op": "tri", "triples": cnt, "worst": worst}));
}

fn so3_bounds_cases(o: &mut Out, m: i64) {
    // constructor: angle lattice incl. negative, zero, beyond pi, NaN; centres incl. zero quaternion
    let angs: Vec<(&str, f64)> = vec![("-1", -1.0), ("0", 0.0), ("pi/6", PI / 6.0), ("pi/2", PI / 2.0), ("pi", PI), ("4", 4.0), ("nan", f64::NAN), ("inf", f64::INFINITY)];
    let centres: Vec<(&str, SO3State)> = vec![("id", SO3State::identity()), ("x90", q_axis(0, m / 4, m)), ("zero", SO3State::new(0.0, 0.0, 0.0, 0.0)), ("nonunit", SO3State::new(0.0, 0.0, 0.0, 2.0))];
    for (an, av) in &angs {
        for (cn, cv) in &centres {
            match SO3StateSpace::new(Some((cv.clone(), *av))) {
                Err(e) => {
                    let kind = match e {
                        StateSpaceError::InvalidAngularDistance { .. } => "InvalidAngularDistance",
                        _ => "other",
                    };
                    o.ev(json!({"ev": "sp", "sp": "so3", "op": "new", "ang": an, "centre": cn, "ok": false, "err": kind, "stored_wf": true, "use": "n/a"}));
                }
                Ok(space) => {
                    let (c, a) = &space.bounds;
                    let cn2 = (c.x * c.x + c.y * c.y + c.z * c.z + c.w * c.w).sqrt();
                    let stored_wf = *a >= 0.0 && *a <= PI && cn2.is_finite();
                    // usable: sampling must return (guard against an endless rejection loop with a
                    // counting generator that panics after many words)
                    struct Capped(StdRng, u64);
                    impl RngCore for Capped {
                        fn next_u32(&mut self) -> u32 {
                            self.1 += 1;
                            if self.1 > 400_000 {
                                panic!("VERIF_SAMPLER_HANG")
                            }
                            self.0.next_u32()
                        }
                        fn next_u64(&mut self) -> u64 {
                            self.1 += 1;
                            if self.1 > 400_000 {
                                panic!("VERIF_SAMPLER_HANG")
                            }
                            self.0.next_u64()
                        }
                        fn fill_bytes(&mut self, d: &mut [u8]) {
                            self.0.fill_bytes(d)
                        }
                    }
                    let mut rng = Capped(StdRng::seed_from_u64(9), 0);
                    let usable = catch_unwind(AssertUnwindSafe(|| {
                        let s = space.sample_uniform(&mut rng);
                        let mut e = q_axis(1, m / 3, m);
                        space.enforce_bounds(&mut e);
                        (s.is_ok(), space.satisfies_bounds(&e))
                    }));
                    let usev = match usable {
                        Err(_) => "panic-or-hang",
                        Ok((true, _)) => "ok",
                        Ok((false, _)) => "sample-err",
                    };
                    o.ev(json!({"ev": "sp", "sp": "so3", "op": "new", "ang": an, "centre": cn, "ok": true, "err": "", "stored_wf": stored_wf, "use": usev}));
                }
            }
        }
    }
    // enforce / satisfies for cones about the identity and about an axis element
    // (general-axis centres too: what holds about a coordinate axis need not hold about a tilted one)
    let gen = SO3State::new(1.0, 2.0, 3.0, 4.0).normalise().unwrap();
    let tilt = SO3State::new(0.0, 0.5, 0.5, std::f64::consts::FRAC_1_SQRT_2);
    for (cn, centre) in [("id", SO3State::identity()), ("z60", q_axis(2, m / 6, m)), ("gen", gen), ("tilt", tilt)] {
        for kmax in [0, 1, 2, m / 4, m / 2] {
            let maxa = 2.0 * PI * kmax as f64 / m as f64;
            let space = SO3StateSpace::new(Some((centre.clone(), maxa))).unwrap();
            for ax in 0..3usize {
                for j in 0..(2 * m) {
                    for (rn, scale) in [("unit", 1.0), ("scaled3", 3.0), ("tiny", 1e-5), ("near-unit", 1.0 - 3e-7)] {
                        let mut orig = q_axis(ax, j, m);
                        orig.x *= scale;
                        orig.y *= scale;
                        orig.z *= scale;
                        orig.w *= scale;
                        let mut e1 = orig.clone();
                        let r = catch_unwind(AssertUnwindSafe(|| space.enforce_bounds(&mut e1)));
                        let sat1 = r.is_ok() && space.satisfies_bounds(&e1);
                        // tolerant satisfaction: deviation <= max + tol
                        let dev = space.distance(&centre, &e1);
                        let mut e2 = e1.clone();
                        let _ = catch_unwind(AssertUnwindSafe(|| space.enforce_bounds(&mut e2)));
                        let nrm = (e1.x * e1.x + e1.y * e1.y + e1.z * e1.z + e1.w * e1.w).sqrt();
                        let sat0 = scale == 1.0 && space.satisfies_bounds(&orig);
                        o.ev(json!({"ev": "sp", "sp": "so3", "op": "enforce", "centre": cn, "kmax": kmax, "M": m, "ax": ax, "j": j, "rep": rn,
                                    "panic": r.is_err(), "sat1": sat1, "sat1tol": dev <= maxa + TOL3,
                                    "idem": space.distance(&e1, &e2) <= 4.0 * TOL3, "unitq": (nrm - 1.0).abs() <= 1e-9,
                                    "sat0": sat0, "unchanged": space.distance(&e1, &orig) <= TOL3 || scale != 1.0}));
                    }
                }
            }
            // zero quaternion
            let mut z = SO3State::new(0.0, 0.0, 0.0, 0.0);
            let r = catch_unwind(AssertUnwindSafe(|| space.enforce_bounds(&mut z)));
            let nrm = (z.x * z.x + z.y * z.y + z.z * z.z + z.w * z.w).sqrt();
            o.ev(json!({"ev": "sp", "sp": "so3", "op": "enforce", "centre": cn, "kmax": kmax, "M": m, "ax": 0, "j": -1, "rep": "zero",
                        "panic": r.is_err(), "sat1": r.is_ok() && space.satisfies_bounds(&z), "sat1tol": r.is_ok() && space.distance(&centre, &z) <= maxa + TOL3,
                        "idem": true, "unitq": (nrm - 1.0).abs() <= TOL3, "sat0": false, "unchanged": true}));
            // sampling in the cone
            let mut rng = StdRng::seed_from_u64(13);
            let mut allin = true;
            for _ in 0..(if kmax == 0 { 0 } else { 120 }) {
                if let Ok(s) = space.sample_uniform(&mut rng) {
                    allin &= space.satisfies_bounds(&s);
                }
            }
            o.ev(json!({"ev": "sp", "sp": "so3", "op": "samplesat", "centre": cn, "kmax": kmax, "allin": allin}));
        }
    }
    // normalise: unit parallel to the input, or ZeroMagnitude
    for v in [[0.0, 0.0, 0.0, 0.0], [1e-10, 0.0, 0.0, 0.0], [1e-8, 0.0, 0.0, 0.0], [3.0, 0.0, 4.0, 0.0], [1e150, 1e150, 0.0, 0.0], [-2.0, 1.0, 0.5, -7.0],
              // nearly, but not, unit: the result must still be unit to rounding
              [0.0, 0.0, 0.6, 0.8000003], [0.182574, 0.365148, 0.547723, 0.730297], [0.6 * (1.0 + 1e-5), 0.0, 0.8 * (1.0 + 1e-5), 0.0],
              [0.5 * (1.0 - 1e-8), 0.5 * (1.0 - 1e-8), 0.5 * (1.0 - 1e-8), 0.5 * (1.0 - 1e-8)], [0.0, 1.0 + 1e-12, 0.0, 0.0]] {
        let mut s = SO3State::new(v[0], v[1], v[2], v[3]);
        let n0 = (v[0] * v[0] + v[1] * v[1] + v[2] * v[2] + v[3] * v[3]).sqrt();
        match s.normalise() {
            Err(_) => o.ev(json!({"ev": "sp", "sp": "so3", "op": "normalise", "err": true, "small": n0 < 1e-9, "unitq": true, "parallel": true})),
            Ok(u) => {
                let nn = (u.x * u.x + u.y * u.y + u.z * u.z + u.w * u.w).sqrt();
                let dot = (u.x * v[0] + u.y * v[1] + u.z * v[2] + u.w * v[3]) / n0;
                o.ev(json!({"ev": "sp", "sp": "so3", "op": "normalise", "err": false, "small": n0 < 1e-9, "unitq": (nn - 1.0).abs() <= 1e-9,
                            "parallel": (dot - 1.0).abs() <= 1e-9 || !n0.is_finite()}));
            }
        }
    }
}

// ------------------------------------------------------------------------------- compound (C13)

struct ScriptRng {
    words: Vec<u64>,
    pos: usize,
    log: Vec<u64>,
}
impl RngCore for ScriptRng {
    fn next_u32(&mut self) -> u32 {
        (self.next_u64() >> 32) as u32
    }
    fn next_u64(&mut self) -> u64 {
        let w = if self.pos < self.words.len() { self.words[self.pos] } else { 0x9E3779B97F4A7C15u64.wrapping_mul(self.pos as u64 + 1) };
        self.pos += 1;
        self.log.push(w);
        w
    }
    fn fill_bytes(&mut self, d: &mut [u8]) {
        for c in d.chunks_mut(8) {
            let w = self.next_u64().to_le_bytes();
            c.copy_from_slice(&w[..c.len()]);
        }
    }
}

fn compound_cases(o: &mut Out, seed: u64, tier: &str) {
    let mut rng = StdRng::seed_from_u64(seed ^ 0xC13);
    let nlay = if tier == "thorough" { 60 } else { 16 };
    for li in 0..nlay {
        // layout: 1-4 components from {rv1, rv2, so2, so3}
        let ncomp = 1 + (li % 4);
        let mut kinds = Vec::new();
        let mut subs: Vec<Box<dyn AnyStateSpace>> = Vec::new();
        let mut weights = Vec::new();
        for ci in 0..ncomp {
            let k = (li / 4 + ci * 3 + li) % 4;
            kinds.push(k);
            match k {
                0 => subs.push(Box::new(RealVectorStateSpace::new(1, Some(vec![(-2.0, 3.0)])).unwrap())),
                1 => subs.push(Box::new(RealVectorStateSpace::new(2, Some(vec![(-1.0, 1.0), (0.0, 5.0)])).unwrap())),
                2 => subs.push(Box::new(SO2StateSpace::new(Some((-2.0, 2.5))).unwrap())),
                _ => subs.push(Box::new(SO3StateSpace::new(Some((SO3State::identity(), 1.5))).unwrap())),
            }
            weights.push([0.0, 1e-6, 1.0, 250.0][(li + ci) % 4]);
        }
        let space = CompoundStateSpace::new(subs.clone(), weights.clone());
        let mk = |r: &mut StdRng| -> CompoundState {
            let mut comps: Vec<Box<dyn oxmpl::base::state::State>> = Vec::new();
            for k in &kinds {
                match k {
                    0 => comps.push(Box::new(RealVectorState::new(vec![r.random_range(-4.0..5.0)]))),
                    1 => comps.push(Box::new(RealVectorState::new(vec![r.random_range(-2.0..2.0), r.random_range(-1.0..6.0)]))),
                    2 => comps.push(Box::new(SO2State { value: r.random_range(-7.0..7.0) })),
                    _ => {
                        let mut q = SO3State::new(r.random_range(-1.0..1.0), r.random_range(-1.0..1.0), r.random_range(-1.0..1.0), r.random_range(-1.0..1.0));
                        q = q.normalise().unwrap_or(SO3State::identity());
                        comps.push(Box::new(q))
                    }
                }
            }
            CompoundState { components: comps }
        };
        for pi in 0..6 {
            let (a, mut b) = (mk(&mut rng), mk(&mut rng));
            // every other pair shares one component exactly (a pure translation / a locked joint)
            if pi % 2 == 1 {
                let ci = pi % ncomp;
                b.components[ci] = a.components[ci].clone();
            }
            // the output buffer of interpolate is an unrelated state: it must be overwritten entirely
            let garbage = mk(&mut rng);
            // distance law
            let mut acc = 0.0;
            for i in 0..ncomp {
                let d = subs[i].distance_dyn(&*a.components[i], &*b.components[i]);
                acc += (d * weights[i]).powi(2);
            }
            let want = acc.sqrt();
            let got = space.distance(&a, &b);
            let dist_ok = (got - want).abs() <= 1e-12 * want.max(1.0);
            // interpolation component-wise
            let t = [0.0, 0.25, 0.5, 1.0][rng.random_range(0..4)];
            let mut out = garbage.clone();
            space.interpolate(&a, &b, t, &mut out);
            let mut interp_ok = true;
            for i in 0..ncomp {
                let mut c = a.components[i].clone();
                subs[i].interpolate_dyn(&*a.components[i], &*b.components[i], t, &mut *c);
                interp_ok &= vharness::codec::dyn_bits(&*c) == vharness::codec::dyn_bits(&*out.components[i]);
            }
            // C10 on the compound itself (its own metric, dirty output buffers): endpoints, constant
            // speed, reversal
            let wmax = weights.iter().cloned().fold(0.0f64, f64::max);
            let ctol = 1e-6 * (1.0 + wmax);
            let dab = space.distance(&a, &b);
            let (mut i0, mut i1, mut rev) = (garbage.clone(), garbage.clone(), b.clone());
            space.interpolate(&a, &b, 0.0, &mut i0);
            space.interpolate(&a, &b, 1.0, &mut i1);
            space.interpolate(&b, &a, 1.0 - t, &mut rev);
            let c10_end = space.distance(&a, &i0) <= ctol && space.distance(&i1, &b) <= ctol;
            let c10_prop = (space.distance(&a, &out) - t * dab).abs() <= ctol && (space.distance(&out, &b) - (1.0 - t) * dab).abs() <= ctol;
            let c10_rev = space.distance(&out, &rev) <= ctol;
            // enforce / satisfies component-wise
            let mut e = a.clone();
            space.enforce_bounds(&mut e);
            let mut enf_ok = true;
            let mut sat_want = true;
            for i in 0..ncomp {
                let mut c = a.components[i].clone();
                subs[i].enforce_bounds_dyn(&mut *c);
                enf_ok &= vharness::codec::dyn_bits(&*c) == vharness::codec::dyn_bits(&*e.components[i]);
                sat_want &= subs[i].satisfies_bounds_dyn(&*a.components[i]);
            }
            let sat_ok = space.satisfies_bounds(&a) == sat_want;
            o.ev(json!({"ev": "sp", "sp": "cmp", "op": "laws", "layout": kinds, "weights": weights, "dist": dist_ok, "interp": interp_ok,
                        "enforce": enf_ok, "sat": sat_ok, "c10_end": c10_end, "c10_prop": c10_prop, "c10_rev": c10_rev}));
        }
        // resolution law
        let mut acc = 0.0;
        for i in 0..ncomp {
            acc += (subs[i].get_longest_valid_segment_length_dyn() * weights[i]).powi(2);
        }
        let mut res_ok = (space.get_longest_valid_segment_length() - acc.sqrt()).abs() <= 1e-12 * acc.sqrt().max(1.0);
        // the law holds for the weights the space has NOW: re-weight the (public) field after the first
        // query, and take a clone
        {
            let mut sp2 = space.clone();
            let w2: Vec<f64> = weights.iter().enumerate().map(|(i, w)| if *w == 0.0 { 3.0 } else { w * [0.5, 7.0, 0.01][i % 3] }).collect();
            sp2.weights = w2.clone();
            let mut acc2 = 0.0;
            for i in 0..ncomp {
                acc2 += (subs[i].get_longest_valid_segment_length_dyn() * w2[i]).powi(2);
            }
            res_ok &= (sp2.get_longest_valid_segment_length() - acc2.sqrt()).abs() <= 1e-12 * acc2.sqrt().max(1.0);
            let sp3 = sp2.clone();
            res_ok &= sp3.get_longest_valid_segment_length().to_bits() == sp2.get_longest_valid_segment_length().to_bits();
            // distance follows the current weights too
            let (a, b) = (mk(&mut rng), mk(&mut rng));
            let mut d2 = 0.0;
            for i in 0..ncomp {
                d2 += (subs[i].distance_dyn(&*a.components[i], &*b.components[i]) * w2[i]).powi(2);
            }
            res_ok &= (sp2.distance(&a, &b) - d2.sqrt()).abs() <= 1e-12 * d2.sqrt().max(1.0);
        }
        // sampling: one scripted word stream; the compound must consume the concatenation of what the
        // components consume, in order, and produce the same component states
        let words: Vec<u64> = (0..64).map(|i| (i as u64 + 1).wrapping_mul(0xD1B54A32D192ED03u64 ^ seed)).collect();
        let mut r1 = ScriptRng { words: words.clone(), pos: 0, log: vec![] };
        let whole = space.sample_uniform(&mut r1);
        let mut r2 = ScriptRng { words: words.clone(), pos: 0, log: vec![] };
        let mut parts = Vec::new();
        let mut perr = false;
        for s in &subs {
            match s.sample_uniform_dyn(&mut r2) {
                Ok(c) => parts.push(c),
                Err(_) => {
                    perr = true;
                    break;
                }
            }
        }
        let stream_ok = match (&whole, perr) {
            (Ok(w), false) => r1.log == r2.log && (0..ncomp).all(|i| vharness::codec::dyn_bits(&*w.components[i]) == vharness::codec::dyn_bits(&*parts[i])),
            (Err(_), true) => true,
            _ => false,
        };
        let insat = whole.as_ref().map(|w| space.satisfies_bounds(w)).unwrap_or(true);
        o.ev(json!({"ev": "sp", "sp": "cmp", "op": "sample", "layout": kinds, "weights": weights, "resolution": res_ok, "stream": stream_ok,
                    "words": r1.log.len(), "insat": insat}));
    }
    // SE(2) / SE(3) constructors: the number of bounds and the documented errors
    for n in 0..=5usize {
        let b: Vec<(f64, f64)> = vec![(0.0, 1.0); n];
        let kind = |e: &StateSpaceError| match e {
            StateSpaceError::InvalidBound { .. } => "InvalidBound",
            StateSpaceError::DimensionMismatch { .. } => "DimensionMismatch",
            StateSpaceError::ZeroDimensionUnbounded => "ZeroDimensionUnbounded",
            StateSpaceError::InvalidAngularDistance { .. } => "InvalidAngularDistance",
        };
        let r2 = SE2StateSpace::new(1.0, Some(b.clone()));
        o.ev(json!({"ev": "sp", "sp": "se2", "op": "new", "len": n, "ok": r2.is_ok(), "err": r2.as_ref().err().map(kind).unwrap_or("")}));
        let r3 = SE3StateSpace::new(1.0, Some(b.clone()));
        o.ev(json!({"ev": "sp", "sp": "se3", "op": "new", "len": n, "ok": r3.is_ok(), "err": r3.as_ref().err().map(kind).unwrap_or("")}));
    }
    for (lo, hi, wf) in [(-1.0, 2.0, true), (2.0, 1.0, false), (1.0, 1.0, false), (4.0, 5.0, false), (f64::NAN, 1.0, false)] {
        // (a NaN yaw bound is clamped to the manifold's range by f64::max / min, so the STORED interval
        // is well-formed: the property constrains the stored bounds, hence no expectation there)
        if !lo.is_nan() {
            let r = SE2StateSpace::new(1.0, Some(vec![(0.0, 1.0), (0.0, 1.0), (lo, hi)]));
            o.ev(json!({"ev": "sp", "sp": "se2", "op": "newyaw", "wf": wf, "ok": r.is_ok(),
                        "err": match &r { Err(StateSpaceError::InvalidBound { .. }) => "InvalidBound", Err(_) => "other", Ok(_) => "" }}));
        }
        let r = SE3StateSpace::new(1.0, Some(vec![(0.0, 1.0), (lo, hi), (0.0, 1.0)]));
        let wf3 = lo < hi; // a translation bound: any proper interval is well-formed
        let _ = wf;
        o.ev(json!({"ev": "sp", "sp": "se3", "op": "newyaw", "wf": wf3, "ok": r.is_ok(),
                    "err": match &r { Err(StateSpaceError::InvalidBound { .. }) => "InvalidBound", Err(_) => "other", Ok(_) => "" }}));
    }
    // SE(2) / SE(3) equal the explicitly built compound with weights (1, w)
    for w in [0.0, 0.5, 1.0, 40.0] {
        let b = vec![(-3.0, 3.0), (0.0, 4.0), (-1.0, 2.0)];
        let se2 = SE2StateSpace::new(w, Some(b.clone())).unwrap();
        let r2 = RealVectorStateSpace::new(2, Some(vec![b[0], b[1]])).unwrap();
        let so2 = SO2StateSpace::new(Some(b[2])).unwrap();
        let cmp = CompoundStateSpace::new(vec![Box::new(r2), Box::new(so2)], vec![1.0, w]);
        let mut ok = true;
        for _ in 0..8 {
            let a = SE2State::new(rng.random_range(-5.0..5.0), rng.random_range(-1.0..5.0), rng.random_range(-4.0..4.0));
            let c = SE2State::new(rng.random_range(-5.0..5.0), rng.random_range(-1.0..5.0), rng.random_range(-4.0..4.0));
            ok &= se2.distance(&a, &c).to_bits() == cmp.distance(&a.0, &c.0).to_bits();
            let mut o1 = SE2State::new(-9.0, 9.0, 2.9);
            se2.interpolate(&a, &c, 0.3, &mut o1);
            let mut o2 = SE2State::new(7.0, -7.0, -1.1).0;
            cmp.interpolate(&a.0, &c.0, 0.3, &mut o2);
            ok &= vharness::codec::Bits::bits(&o1) == vharness::codec::Bits::bits(&o2);
            let mut e1 = a.clone();
            se2.enforce_bounds(&mut e1);
            let mut e2 = a.0.clone();
            cmp.enforce_bounds(&mut e2);
            ok &= vharness::codec::Bits::bits(&e1) == vharness::codec::Bits::bits(&e2);
            ok &= se2.satisfies_bounds(&a) == cmp.satisfies_bounds(&a.0);
        }
        for (a, c) in [(SE2State::new(1.0, 2.0, 0.3), SE2State::new(1.0, 2.0, -2.0)), (SE2State::new(1.0, 2.0, 0.3), SE2State::new(-2.0, 0.5, 0.3)),
                       (SE2State::new(0.0, 0.0, 0.0), SE2State::new(0.0, 0.0, 0.0))] {
            ok &= se2.distance(&a, &c).to_bits() == cmp.distance(&a.0, &c.0).to_bits();
            let mut o1 = SE2State::new(-9.0, 9.0, 2.9);
            se2.interpolate(&a, &c, 0.5, &mut o1);
            let mut o2 = SE2State::new(7.0, -7.0, -1.1).0;
            cmp.interpolate(&a.0, &c.0, 0.5, &mut o2);
            ok &= vharness::codec::Bits::bits(&o1) == vharness::codec::Bits::bits(&o2);
            // SE(2) with the resolution / weight of its inner compound changed after the first query
            let mut se2b = se2.clone();
            se2b.0.weights[1] = w + 2.5;
            let cmpb = CompoundStateSpace::new(vec![Box::new(RealVectorStateSpace::new(2, Some(vec![b[0], b[1]])).unwrap()), Box::new(SO2StateSpace::new(Some(b[2])).unwrap())], vec![1.0, w + 2.5]);
            ok &= se2b.get_longest_valid_segment_length().to_bits() == cmpb.get_longest_valid_segment_length().to_bits();
            ok &= se2b.distance(&a, &c).to_bits() == cmpb.distance(&a.0, &c.0).to_bits();
        }
        ok &= se2.get_longest_valid_segment_length().to_bits() == cmp.get_longest_valid_segment_length().to_bits();
        let mut s1 = StdRng::seed_from_u64(77);
        let mut s2 = StdRng::seed_from_u64(77);
        let x = se2.sample_uniform(&mut s1).unwrap();
        let y = cmp.sample_uniform(&mut s2).unwrap();
        ok &= vharness::codec::Bits::bits(&x) == vharness::codec::Bits::bits(&y);
        o.ev(json!({"ev": "sp", "sp": "se2", "op": "equals-compound", "w": w, "ok": ok}));

        let b3 = vec![(-1.0, 1.0), (-2.0, 2.0), (0.0, 3.0)];
        let se3 = SE3StateSpace::new(w, Some(b3.clone())).unwrap();
        let r3 = RealVectorStateSpace::new(3, Some(b3.clone())).unwrap();
        let so3 = SO3StateSpace::new(None).unwrap();
        let cmp3 = CompoundStateSpace::new(vec![Box::new(r3), Box::new(so3)], vec![1.0, w]);
        let mut ok3 = true;
        for _ in 0..8 {
            let mut qa = SO3State::new(rng.random_range(-1.0..1.0), rng.random_range(-1.0..1.0), rng.random_range(-1.0..1.0), rng.random_range(-1.0..1.0));
            qa = qa.normalise().unwrap_or(SO3State::identity());
            let mut qb = SO3State::new(rng.random_range(-1.0..1.0), rng.random_range(-1.0..1.0), rng.random_range(-1.0..1.0), rng.random_range(-1.0..1.0));
            qb = qb.normalise().unwrap_or(SO3State::identity());
            let a = SE3State::new(rng.random_range(-2.0..2.0), rng.random_range(-3.0..3.0), rng.random_range(-1.0..4.0), qa);
            let c = SE3State::new(rng.random_range(-2.0..2.0), rng.random_range(-3.0..3.0), rng.random_range(-1.0..4.0), qb);
            ok3 &= se3.distance(&a, &c).to_bits() == cmp3.distance(&a.0, &c.0).to_bits();
            let mut o1 = a.clone();
            se3.interpolate(&a, &c, 0.7, &mut o1);
            let mut o2 = a.0.clone();
            cmp3.interpolate(&a.0, &c.0, 0.7, &mut o2);
            ok3 &= vharness::codec::Bits::bits(&o1) == vharness::codec::Bits::bits(&o2);
            ok3 &= se3.satisfies_bounds(&a) == cmp3.satisfies_bounds(&a.0);
        }
        {
            let q1 = SO3State::new(0.0, 0.6, 0.0, 0.8);
            let q2 = SO3State::new(0.5, 0.5, 0.5, 0.5);
            for (a, c) in [(SE3State::new(1.0, 1.0, 1.0, q1.clone()), SE3State::new(1.0, 1.0, 1.0, q2.clone())),
                           (SE3State::new(1.0, 1.0, 1.0, q1.clone()), SE3State::new(0.0, -1.0, 2.0, q1.clone()))] {
                ok3 &= se3.distance(&a, &c).to_bits() == cmp3.distance(&a.0, &c.0).to_bits();
                let mut o1 = a.clone();
                se3.interpolate(&a, &c, 0.25, &mut o1);
                let mut o2 = a.0.clone();
                cmp3.interpolate(&a.0, &c.0, 0.25, &mut o2);
                ok3 &= vharness::codec::Bits::bits(&o1) == vharness::codec::Bits::bits(&o2);
                let mut e1 = a.clone();
                se3.enforce_bounds(&mut e1);
                let mut e2 = a.0.clone();
                cmp3.enforce_bounds(&mut e2);
                ok3 &= vharness::codec::Bits::bits(&e1) == vharness::codec::Bits::bits(&e2);
            }
            let mut s1 = StdRng::seed_from_u64(78);
            let mut s2 = StdRng::seed_from_u64(78);
            let x = se3.sample_uniform(&mut s1).unwrap();
            let y = cmp3.sample_uniform(&mut s2).unwrap();
            ok3 &= vharness::codec::Bits::bits(&x) == vharness::codec::Bits::bits(&y);
        }
        ok3 &= se3.get_longest_valid_segment_length().to_bits() == cmp3.get_longest_valid_segment_length().to_bits();
        o.ev(json!({"ev": "sp", "sp": "se3", "op": "equals-compound", "w": w, "ok": ok3}));
    }
}

// ------------------------------------------------------------------------------- samplers (C14)

fn sampler_cases(o: &mut Out, tier: &str) {
    let bits = 4u32;
    let ncell = 1u64 << bits;
    // R^n / SO(2): the word's top bits select the cell of an equal partition; one word per coordinate
    let rvs = RealVectorStateSpace::new(2, Some(vec![(-3.0, 5.0), (10.0, 10.5)])).unwrap();
    let so2 = SO2StateSpace::new(Some((-1.0, 2.0))).unwrap();
    for j0 in 0..ncell {
        for j1 in 0..ncell {
            // word in the middle of cell j (top bits j, then 1000...)
            let w = |j: u64| (j << (64 - bits)) | (1u64 << (63 - bits));
            let mut r = ScriptRng { words: vec![w(j0), w(j1)], pos: 0, log: vec![] };
            let s = rvs.sample_uniform(&mut r).unwrap();
            let cell = |x: f64, lo: f64, hi: f64| (((x - lo) / (hi - lo)) * ncell as f64).floor() as i64;
            o.ev(json!({"ev": "sp", "sp": "rv", "op": "sampler", "j": [j0, j1], "cells": [cell(s.values[0], -3.0, 5.0), cell(s.values[1], 10.0, 10.5)],
                        "words": r.log.len()}));
        }
        let w = |j: u64| (j << (64 - bits)) | (1u64 << (63 - bits));
        let mut r = ScriptRng { words: vec![w(j0)], pos: 0, log: vec![] };
        let s = so2.sample_uniform(&mut r).unwrap();
        let cell = (((s.value + 1.0) / 3.0) * ncell as f64).floor() as i64;
        o.ev(json!({"ev": "sp", "sp": "so2", "op": "sampler", "j": [j0], "cells": [cell], "words": r.log.len()}));
    }
    // SO(3): four words -> cube point; accept iff inside the open unit ball; output = radial projection
    let so3 = SO3StateSpace::new(None).unwrap();
    let h = (ncell / 2) as i64;
    let step = if tier == "thorough" { 1 } else { 3 };
    let mut idx = 0usize;
    for a in 0..ncell {
        for b in 0..ncell {
            for c in 0..ncell {
                for d in 0..ncell {
                    idx += 1;
                    if idx % step != 0 {
                        continue;
                    }
                    // low edge of the cell: coordinate exactly (j - h) / h
                    let w = |j: u64| j << (64 - bits);
                    // follow-up attempt that is certainly accepted: (0.5, 0, 0, 0.5) -> cells (12, 8, 8, 12) for bits=4
                    let acc = [w(3 * ncell / 4), w(ncell / 2), w(ncell / 2), w(3 * ncell / 4)];
                    let mut words = vec![w(a), w(b), w(c), w(d)];
                    words.extend_from_slice(&acc);
                    let mut r = ScriptRng { words, pos: 0, log: vec![] };
                    let s = so3.sample_uniform(&mut r).unwrap();
                    let v = [(a as i64 - h) as f64, (b as i64 - h) as f64, (c as i64 - h) as f64, (d as i64 - h) as f64];
                    let n = (v[0] * v[0] + v[1] * v[1] + v[2] * v[2] + v[3] * v[3]).sqrt();
                    let par = if n > 0.0 { ((s.x * v[0] + s.y * v[1] + s.z * v[2] + s.w * v[3]) / n - 1.0).abs() <= 1e-9 } else { false };
                    o.ev(json!({"ev": "sp", "sp": "so3", "op": "sampler", "j": [a, b, c, d], "H": h, "words": r.log.len(), "parallel": par,
                                "unitq": ((s.x * s.x + s.y * s.y + s.z * s.z + s.w * s.w).sqrt() - 1.0).abs() <= 1e-9}));
                }
            }
        }
    }
    // cone rejection: with a cone about the identity a ball-accepted point outside the cone must be
    // rejected (next attempt consumed), never clamped; inside the cone it is returned as is. Narrow,
    // medium and wide cones.
    for cone_angle in [0.3f64, 1.0, 2.0] {
        let cone = SO3StateSpace::new(Some((SO3State::identity(), cone_angle))).unwrap();
        for (a, b, c, d) in [(12u64, 8u64, 8u64, 8u64), (8, 8, 8, 12), (8, 12, 8, 9), (9, 8, 8, 12), (4, 8, 8, 9), (9, 9, 8, 14), (8, 7, 9, 15),
                             (10, 8, 8, 13), (8, 8, 11, 12), (7, 7, 7, 13)] {
            let w = |j: u64| j << (64 - bits);
            let acc = [w(8), w(8), w(8), w(12)]; // identity direction: inside every cone
            let mut words = vec![w(a), w(b), w(c), w(d)];
            words.extend_from_slice(&acc);
            let mut r = ScriptRng { words, pos: 0, log: vec![] };
            let s = cone.sample_uniform(&mut r).unwrap();
            let v = [(a as i64 - h) as f64, (b as i64 - h) as f64, (c as i64 - h) as f64, (d as i64 - h) as f64];
            let n = (v[0] * v[0] + v[1] * v[1] + v[2] * v[2] + v[3] * v[3]).sqrt();
            let dev = 2.0 * (v[3].abs() / n).min(1.0).acos();
            let par = ((s.x * v[0] + s.y * v[1] + s.z * v[2] + s.w * v[3]) / n - 1.0).abs() <= 1e-9;
            let ident = (s.w - 1.0).abs() <= 1e-9;
            o.ev(json!({"ev": "sp", "sp": "so3", "op": "conesampler", "j": [a, b, c, d], "H": h, "cone": cone_angle, "incone": dev <= cone_angle,
                        "nearedge": (dev - cone_angle).abs() < 1e-6, "words": r.log.len(), "parallel": par, "fallback": ident,
                        "insat": cone.satisfies_bounds(&s)}));
        }
    }
    // long rejection runs: the sampler is a pure rejection sampler - however many proposals are rejected
    // (outside the ball, or inside the ball but outside the cone), the output is the projection of the
    // FIRST accepted proposal and exactly four words are consumed per proposal. (A budget of attempts with
    // a non-uniform fallback after it would show here.)
    for (cone_angle, ks) in [(0.0f64, vec![1usize, 300]), (0.15, vec![1, 40, 12_000]), (0.3, vec![12_000]), (1.0, vec![30_000])] {
        let sp = if cone_angle == 0.0 { SO3StateSpace::new(None).unwrap() } else { SO3StateSpace::new(Some((SO3State::identity(), cone_angle))).unwrap() };
        for k in ks {
            let w = |j: u64| j << (64 - bits);
            // rejected proposal: a cube corner (outside the ball) for the unbounded space; the half-turn
            // direction (4,0,0,0)/4 -> w = 0, deviation pi, for a cone
            let rej = if cone_angle == 0.0 { [w(0), w(0), w(0), w(0)] } else { [w(12), w(8), w(8), w(8)] };
            let acc = [w(8), w(8), w(8), w(12)];
            let mut words = Vec::with_capacity(4 * (k + 1));
            for _ in 0..k {
                words.extend_from_slice(&rej);
            }
            words.extend_from_slice(&acc);
            let mut r = ScriptRng { words, pos: 0, log: vec![] };
            let s = sp.sample_uniform(&mut r).unwrap();
            let ident = (s.w - 1.0).abs() <= 1e-9 && s.x.abs() <= 1e-9 && s.y.abs() <= 1e-9 && s.z.abs() <= 1e-9;
            o.ev(json!({"ev": "sp", "sp": "so3", "op": "rejectrun", "cone": cone_angle, "K": k, "words": r.log.len(), "first_accepted": ident,
                        "insat": sp.satisfies_bounds(&s)}));
        }
    }
}

fn main() {
    let args: Vec<String> = std::env::args().collect();
    let mut outp = String::from("/dev/null");
    let mut shards = 1usize;
    let mut seed = 1u64;
    let mut tier = String::from("quick");
    let mut i = 1;
    while i < args.len() {
        match args[i].as_str() {
            "--out" => {
                outp = args[i + 1].clone();
                i += 1
            }
            "--shards" => {
                shards = args[i + 1].parse().unwrap();
                i += 1
            }
            "--seed" => {
                seed = args[i + 1].parse().unwrap();
                i += 1
            }
            "--tier" => {
                tier = args[i + 1].clone();
                i += 1
            }
            _ => {}
        }
        i += 1;
    }
    install_panic_hook();
    let outs: Vec<BufWriter<std::fs::File>> = (0..shards)
        .map(|k| {
            let name = if shards == 1 { outp.clone() } else { format!("{outp}.{k}") };
            BufWriter::new(std::fs::File::create(name).unwrap())
        })
        .collect();
    let mut o = Out { outs, n: 0 };
    let so2_ns: Vec<i64> = if tier == "thorough" { vec![8, 12, 16, 60] } else { vec![8, 12] };
    for n in so2_ns {
        so2_cases(&mut o, n, &tier);
    }
    rv_cases(&mut o, &tier);
    rv_bounds_cases(&mut o);
    let ms: Vec<i64> = if tier == "thorough" { vec![12, 24, 120] } else { vec![12] };
    for m in &ms {
        so3_cases(&mut o, *m, &tier);
    }
    so3_bounds_cases(&mut o, 12);
    compound_cases(&mut o, seed, &tier);
    sampler_cases(&mut o, &tier);
    for w in o.outs.iter_mut() {
        w.flush().unwrap();
    }
    eprintln!("{}", json!({"events": o.n}));
}
