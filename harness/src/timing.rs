//! C07, timing independence: "wall-clock time may only affect how many iterations complete, never
//! which decisions are taken". A run is summarised as, per installation epoch (the calls between two
//! `setup`s), the flat sequence of its planning iterations - what the sampler returned (with the
//! generator words it drew) and what the iteration did to the search trees (nodes pushed with parent,
//! recorded cost and state; rewirings). Two same-seed instances driven through the same calls under
//! DIFFERENT clock costs must produce sequences one of which is a prefix of the other.

use crate::codec::Bits;
use crate::drive::*;
use crate::instr::{Draw, Raw};
use oxmpl::verif::Event;
use std::collections::HashMap;

pub fn epochs<S: Bits + Clone>(recs: &[CallRec<S>], ids: &mut HashMap<String, usize>) -> Option<Vec<Vec<usize>>> {
    let mut out: Vec<Vec<usize>> = vec![Vec::new()];
    for r in recs {
        if matches!(r.outcome, Outcome::Panic { .. }) {
            return None; // a panic is C08's business; what follows it is unspecified
        }
        // a new epoch begins with every installation and with every re-assignment of the parameters
        // (from there on the decisions depend on how far the earlier calls got)
        if matches!(r.call, Call::Setup(_) | Call::SetParams(_)) {
            out.push(Vec::new());
            continue;
        }
        let state_of = |tr: usize, idx: usize| -> String {
            match &r.snap {
                Snapshot::Trees(ts) => ts.get(tr).and_then(|t| t.get(idx)).map(|x| format!("{:?}", x.0.bits())).unwrap_or_default(),
                _ => String::new(),
            }
        };
        let mut cur: Option<String> = None;
        let mut flush = |cur: &mut Option<String>, out: &mut Vec<Vec<usize>>| {
            if let Some(s) = cur.take() {
                let n = ids.len() + 1;
                let id = *ids.entry(s).or_insert(n);
                out.last_mut().unwrap().push(id);
            }
        };
        for e in &r.raw {
            match e {
                Raw::SampleUniform(res, _, draws) | Raw::SampleGoal(res, _, draws) => {
                    flush(&mut cur, &mut out);
                    let k = if matches!(e, Raw::SampleUniform(..)) { "U" } else { "G" };
                    let dd: Vec<String> = draws
                        .iter()
                        .map(|d| match d {
                            Draw::U32(v) => format!("a{v}"),
                            Draw::U64(v) => format!("b{v}"),
                            Draw::Fill(b) => format!("c{b:?}"),
                        })
                        .collect();
                    let rs = match res {
                        Ok(s) => format!("{:?}", s.bits()),
                        Err(e) => e.clone(),
                    };
                    cur = Some(format!("{k}|{}|{rs}", dd.join(",")));
                }
                Raw::Hook(Event::Push { tree, idx, parent, cost }) => {
                    if let Some(c) = cur.as_mut() {
                        c.push_str(&format!(";P{tree},{idx},{parent:?},{},{}", cost.to_bits(), state_of(*tree as usize, *idx)));
                    }
                }
                Raw::Hook(Event::Rewire { idx, parent, cost }) => {
                    if let Some(c) = cur.as_mut() {
                        c.push_str(&format!(";R{idx},{parent},{}", cost.to_bits()));
                    }
                }
                _ => {}
            }
        }
        flush(&mut cur, &mut out);
    }
    Some(out)
}
