#!/usr/bin/env python3
"""Extract the HIST lines TLC printed (one JSON history per line), de-duplicate, drop histories
that are a strict prefix of another one (replaying the longer one passes through the shorter)."""
import json, sys
def main(inp, out, extra=None):
    seen = set(); hs = []
    for l in open(inp, errors='replace'):
        l = l.strip()
        if not l.startswith('<<"HIST", '): continue
        try:
            s = json.loads(l[len('<<"HIST", '):-2])
        except Exception:
            continue
        if s in seen: continue
        seen.add(s); hs.append(json.loads(s))
    # prefix elimination: key = everything but calls
    groups = {}
    for h in hs:
        k = json.dumps({x: h[x] for x in h if x != 'calls'}, sort_keys=True)
        groups.setdefault(k, []).append(h)
    kept = []
    for k, lst in groups.items():
        cs = sorted((json.dumps(h['calls']) for h in lst))
        calls = [json.loads(c) for c in cs]
        calls.sort(key=lambda c: [json.dumps(x, sort_keys=True) for x in c])
        for i, c in enumerate(calls):
            nxt = calls[i + 1] if i + 1 < len(calls) else None
            if nxt is not None and len(nxt) > len(c) and nxt[:len(c)] == c:
                continue
            h = json.loads(k); h['calls'] = c
            if extra: h.update(extra)
            kept.append(h)
    with open(out, 'w') as f:
        for h in kept:
            f.write(json.dumps(h) + '\n')
    print(json.dumps({"histories_emitted": len(hs), "kept_after_prefix_elimination": len(kept)}))
if __name__ == '__main__':
    extra = json.loads(sys.argv[3]) if len(sys.argv) > 3 else None
    main(sys.argv[1], sys.argv[2], extra)
