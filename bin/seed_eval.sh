#!/bin/bash
# usage: seed_eval.sh <worktree> <prop> [<prop>...]
# Confirms a seeded change in its scratch worktree (demo fails with / passes without the patch, existing
# suite passes with it), then applies it to /repo, runs the quick checks of the given properties
# (restricted to the engines the touched files concern), and undoes it. Never run two of these at once.
wt=$1; shift
here=$(cd "$(dirname "$0")/.." && pwd)
if grep -q 'oxmpl-py/' $wt/patch.diff; then v=$($here/bin/verify_mutant_py.sh $wt); else v=$($here/bin/verify_mutant.sh $wt); fi
echo "VERIFY $v"
eng=$(python3 - "$wt/patch.diff" <<'PY'
import sys
t=open(sys.argv[1]).read(); e=set()
if 'oxmpl-py/' in t: print('py'); sys.exit()
if 'rrt_star.rs' in t: e |= {'lat:rrtstar','api:rrtstar','real','ind:star'}
if 'rrt_connect.rs' in t: e |= {'lat:rrtc','api:rrtc','real'}
if 'planners/rrt.rs' in t: e |= {'lat:rrt','api:rrt','real'}
if 'prm.rs' in t: e |= {'lat:prm','api:prm','real'}
if '/spaces/' in t or '/states/' in t or not e: e |= {'spaces','real','lat:rrt','lat:rrtstar','lat:rrtc','lat:prm'}
print(','.join(sorted(e)))
PY
)
echo "ENGINES $eng"
VERIF_ENGINES=$eng $here/bin/try_mutant.sh $wt/patch.diff "$@"
git -C /repo status --short | head -3
