#!/bin/bash
# usage: verify_mutant_py.sh <worktree> : demo script exits non-zero with the patch and zero without.
wt=$1; cd $wt || exit 2
build() { cargo build -p oxmpl-py --offline --release --target-dir $wt/pytarget >/dev/null 2>&1 && mkdir -p pymod && cp pytarget/release/liboxmpl_py.so pymod/oxmpl_py.so; }
git checkout -q -- oxmpl-py/src; git apply patch.diff || { echo '{"error":"patch"}'; exit 2; }
build; PYTHONPATH=pymod python3 seeded_demo.py >/dev/null 2>&1; with=$?
git checkout -q -- oxmpl-py/src; build; PYTHONPATH=pymod python3 seeded_demo.py >/dev/null 2>&1; without=$?
git apply patch.diff
echo "{\"wt\":\"$wt\",\"demo_exit_with_patch\":$with,\"demo_exit_without_patch\":$without}"
