#!/bin/bash
# usage: try_mutant.sh <patch> <prop> [<prop>...] : applies the patch to /repo, runs the quick checks, reverts.
patch=$1; shift
cd /repo && git apply --check $patch || { echo "patch does not apply"; exit 2; }
git -C /repo apply $patch
trap 'git -C /repo reset -q --hard HEAD' EXIT
for p in "$@"; do
  out=$(cd /verif && bin/check $p --tier quick 2>&1)
  rc=$?
  echo "== $p rc=$rc"
  echo "$out" | grep -E 'VIOLATION|label=|TOOL' | sed 's/replay=.*replays/replay=...replays/' | cut -c1-220 | head -12
done
