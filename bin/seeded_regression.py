#!/usr/bin/env python3
"""Applies every seeded change under seeded/ to /repo in turn, runs the quick checks that are recorded
as catching it (restricted to the engines the touched files concern), undoes it, and reports which are
still detected. Usage: bin/seeded_regression.py [id ...]"""
import os, sys, json, subprocess, re, glob
ROOT = os.path.dirname(os.path.dirname(os.path.abspath(__file__)))
SCRATCH = '--scratch' in sys.argv
if SCRATCH:
    sys.argv.remove('--scratch')
    # re-execute from scratch copies of /verif and /repo (removed at the end)
    import shutil, tempfile
    base = tempfile.mkdtemp(prefix='regr_', dir='/tmp')
    sv, sr = os.path.join(base, 'verif'), os.path.join(base, 'repo')
    subprocess.run(['git', '-C', '/repo', 'worktree', 'add', '-q', '--detach', sr, 'HEAD'], check=True)
    subprocess.run(['rsync', '-a', '--exclude', 'build/target', '--exclude', 'build/pytarget', '--exclude', 'build/work', '--exclude', 'build/results',
                    '--exclude', '.git', ROOT + '/', sv + '/'], check=True)
    ct = os.path.join(sv, 'harness', 'Cargo.toml')
    txt = open(ct).read().replace('/repo/oxmpl', sr + '/oxmpl')
    open(ct, 'w').write(txt)
    try:
        rc = subprocess.run([sys.executable, os.path.join(sv, 'bin', 'seeded_regression.py')] + sys.argv[1:],
                            env={**os.environ, 'VERIF_REPO': sr}).returncode
        shutil.copy(os.path.join(sv, 'build', 'seeded_regression.json'), os.path.join(ROOT, 'build', 'seeded_regression.json'))
    finally:
        subprocess.run(['git', '-C', '/repo', 'worktree', 'remove', '--force', sr])
        shutil.rmtree(base, ignore_errors=True)
    sys.exit(rc)
REPO = os.environ.get('VERIF_REPO', '/repo')
ids = sys.argv[1:] or sorted(x for x in os.listdir(os.path.join(ROOT, 'seeded')) if os.path.isdir(os.path.join(ROOT, 'seeded', x)))
def engines_for(patch):
    t = open(patch).read()
    e = set()
    if 'oxmpl-py/' in t: return 'py'
    if 'rrt_star.rs' in t: e |= {'lat:rrtstar', 'api:rrtstar', 'real', 'ind:star'}
    if 'rrt_connect.rs' in t: e |= {'lat:rrtc', 'api:rrtc', 'real'}
    if 'planners/rrt.rs' in t: e |= {'lat:rrt', 'api:rrt', 'real'}
    if 'prm.rs' in t: e |= {'lat:prm', 'api:prm', 'real'}
    if '/spaces/' in t or '/states/' in t: e |= {'spaces', 'real'}
    return ','.join(sorted(e))
out = {}
for i in ids:
    d = os.path.join(ROOT, 'seeded', i)
    meta = json.load(open(os.path.join(d, 'meta.json')))
    patch = os.path.join(d, 'patch.diff')
    if subprocess.run(['git', '-C', REPO, 'apply', '--check', patch]).returncode != 0:
        out[i] = 'patch no longer applies'; print(i, out[i], flush=True); continue
    subprocess.run(['git', '-C', REPO, 'apply', patch], check=True)
    try:
        res = []
        for cmd in meta['ran']:
            m = re.search(r'bin/check (C\d+)', cmd)
            p = subprocess.run([os.path.join(ROOT, 'bin', 'check'), m.group(1), '--tier', 'quick'], cwd=ROOT,
                               env={**os.environ, 'VERIF_ENGINES': engines_for(patch)}, stdout=subprocess.PIPE, stderr=subprocess.STDOUT, text=True)
            labs = sorted(set(re.findall(r'label=(\S+)', p.stdout)))
            res.append((m.group(1), p.returncode, labs[:4]))
            if p.returncode == 2:
                print(p.stdout[-1500:], flush=True)
        out[i] = res
    finally:
        subprocess.run(['git', '-C', REPO, 'checkout', '--', '.'], check=True)
    det = any(r[1] == 1 for r in res)
    print(i, 'DETECTED' if det else 'MISSED', res, flush=True)
json.dump(out, open(os.path.join(ROOT, 'build', 'seeded_regression.json'), 'w'), indent=1)
