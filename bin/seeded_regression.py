#!/usr/bin/env python3
"""Applies every seeded change under seeded/ to /repo in turn, runs the quick checks that are recorded
as catching it (restricted to the engines the touched files concern), undoes it, and reports which are
still detected. Usage: bin/seeded_regression.py [id ...]"""
import os, sys, json, subprocess, re, glob
ROOT = os.path.dirname(os.path.dirname(os.path.abspath(__file__)))
ids = sys.argv[1:] or sorted(x for x in os.listdir(os.path.join(ROOT, 'seeded')) if os.path.isdir(os.path.join(ROOT, 'seeded', x)))
def engines_for(patch):
    t = open(patch).read()
    e = set()
    if 'oxmpl-py/' in t: return 'py'
    if 'rrt_star.rs' in t: e |= {'lat:rrtstar', 'api:rrtstar', 'real', 'ind:star'}
    if 'rrt_connect.rs' in t: e |= {'lat:rrtc', 'api:rrtc', 'real'}
    if 'planners/rrt.rs' in t: e |= {'lat:rrt', 'api:rrt', 'real'}
    if 'prm.rs' in t: e |= {'lat:prm', 'api:prm', 'real'}
    if '/spaces/' in t or '/states/' in t: e |= {'spaces', 'real'}
    return ','.join(sorted(e))
out = {}
for i in ids:
    d = os.path.join(ROOT, 'seeded', i)
    meta = json.load(open(os.path.join(d, 'meta.json')))
    patch = os.path.join(d, 'patch.diff')
    if subprocess.run(['git', '-C', '/repo', 'apply', '--check', patch]).returncode != 0:
        out[i] = 'patch no longer applies'; print(i, out[i], flush=True); continue
    subprocess.run(['git', '-C', '/repo', 'apply', patch], check=True)
    try:
        res = []
        for cmd in meta['ran']:
            m = re.search(r'bin/check (C\d+)', cmd)
            p = subprocess.run([os.path.join(ROOT, 'bin', 'check'), m.group(1), '--tier', 'quick'], cwd=ROOT,
                               env={**os.environ, 'VERIF_ENGINES': engines_for(patch)}, stdout=subprocess.PIPE, stderr=subprocess.STDOUT, text=True)
            labs = sorted(set(re.findall(r'label=(\S+)', p.stdout)))
            res.append((m.group(1), p.returncode, labs[:4]))
        out[i] = res
    finally:
        subprocess.run(['git', '-C', '/repo', 'checkout', '--', '.'], check=True)
    det = any(r[1] == 1 for r in res)
    print(i, 'DETECTED' if det else 'MISSED', res, flush=True)
json.dump(out, open(os.path.join(ROOT, 'build', 'seeded_regression.json'), 'w'), indent=1)
