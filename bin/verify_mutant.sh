#!/bin/bash
# usage: verify_mutant.sh <worktree> : confirms (1) demo fails with the patch, (2) demo passes without,
# (3) the existing test suite passes with the patch. Prints a one-line JSON verdict.
wt=$1
cd $wt || exit 2
git checkout -q -- oxmpl/src 2>/dev/null
git apply patch.diff || { echo '{"error":"patch does not apply"}'; exit 2; }
with=$(cargo test -p oxmpl --offline --test seeded_demo 2>&1 | grep -E '^test result' | tail -1)
suite=$(cargo test -p oxmpl --offline 2>&1 | grep -E '^test result' | grep -v 'seeded' | awk '{p+=$4; f+=$6} END {print p" passed "f" failed"}')
# the demo itself is part of `cargo test`; count failures outside it
suite_fail=$(cargo test -p oxmpl --offline --no-fail-fast 2>&1 | grep -E '^test .* FAILED' | grep -v -c 'seeded_demo' )
git checkout -q -- oxmpl/src
without=$(cargo test -p oxmpl --offline --test seeded_demo 2>&1 | grep -E '^test result' | tail -1)
git apply patch.diff
echo "{\"wt\":\"$wt\",\"demo_with_patch\":\"$with\",\"demo_without_patch\":\"$without\",\"suite_with_patch\":\"$suite\"}"
