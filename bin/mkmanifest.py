#!/usr/bin/env python3
"""Regenerates MANIFEST.json from the property table below (kept next to the engines)."""
import json, os, sys, subprocess
sys.path.insert(0, os.path.join(os.path.dirname(os.path.abspath(__file__)), 'lib'))
from engines import PROPS, REPO

ids = [json.loads(l)['id'] for l in open('/verif/properties.jsonl')]

TEXT = {
 'C01': ("TLC exhausts the four planner specifications over lattice worlds (every validity set, start/goal placement, sample sequence and call history within the bounds) with the invariants C01_*; every history TLC emits is executed on the real planner and every recorded event is validated by the TLC trace monitor (labels C01/node-valid, C01/path-valid, C01/path-start-invalid, C01/path-goalroot-invalid, C01/root-start); recorded runs on the six real spaces are validated by the same monitor", "6 C01"),
 'C02': ("as C01 with invariants C02_Endpoints and monitor labels C02/nonempty, C02/first, C02/last-goal over call histories with re-setup and PRM problem replacement", "6 C02"),
 'C03': ("invariants C03_LinksCovered / C03_PathFollowsLinks on the models (the code's discretisation implies the property-level Covers predicate); on the implementation the monitor demands Covers(accepted queries, segment, lvs) for every link created (extension, choose-parent, rewire, connection, PRM link, start connection) and that every path pair is such a link", "6 C03"),
 'C04': ("model theorem checked by TLC on every tree-planner spec: a geodesically convex region containing start, goal and samples is never left (C04_InRegion; with a non-convex region - a ring arc longer than half the ring - TLC produces the escape, the abstract form of the SO(2) seam defect); binding to the real spaces: recorded runs on boxes, angular intervals, cones and compounds with in-bounds start/goal, monitor label C04/in-bounds on satisfies_bounds of every path state", "6 C04"),
 'C05': ("model invariants C05_Step / C05_Radius (half-integer radii exercise strictness) and monitor label C05/edge-length on every link and path pair", "6 C05"),
 'C06': ("logical time: the deadline is examined at loop tops only (model); on the implementation a virtual clock (hook) makes time a scripted counter, the monitor flags an iteration that starts after the deadline (C06/deadline-at-top), a call that never returns (C06/no-return) or an unbounded motion check (C06/unbounded); model invariant Ok => goal reachable through valid points", "6 C06"),
 'C07': ("generator provenance in the models (C07_Provenance with the RestoreRng / SetupUsesPlannerRng switches); on the implementation two instances with the same seed are driven through every TLC-generated call history and the monitor requires identical generator draws and results call by call (C07/stream, C07/result)", "6 C07"),
 'C08': ("TLC enumerates every call sequence up to the bound for every fault (sampler failing at its k-th call, goal bias outside [0,1], empty start list) from PlannerAPI.tla; each is executed on the real planners under catch_unwind and the monitor enforces the allowed outcome table and 'never a panic' (C08/outcome, C08/panic@site); all other engines' runs feed C08/panic as well", "6 C08"),
 'C09': ("exact lattice models (Spaces.tla: SO(2) ring, integer R^n, SO(3) axis subgroups and the binary tetrahedral group) on which TLC checks the metric axioms, representation independence and the diameter; every lattice pair and its ulp / 2*pi / sign representatives is evaluated on the real distance functions and TLC (TraceSpaces.tla) recomputes the expected value from the model and compares it with the implementation's, and enforces symmetry / identity / triangle / diameter measured on the implementation's own values", "6 C09"),
 'C10': ("model law D(a,I(a,b,t)) = t D(a,b), endpoints, reversal checked by TLC on the lattice models; every lattice (a,b,t) evaluated on the real interpolate, expected position recomputed by TLC from the model (either arc at exactly antipodal pairs), canonical form, reversal and proportionality measured on the implementation", "6 C10"),
 'C11': ("for every constructible lattice bound setting and every lattice state and representative (far outside, on the boundary, non-canonical, scaled and zero quaternions) the composed facts satisfies(enforce(x)), idempotence, canonical result, untouched canonical in-bounds states are measured on the implementation and enforced by the TLC monitor together with agreement with the model's enforce set; samplers stay in bounds / report the unbounded-dimension error", "6 C11"),
 'C12': ("constructor contracts as a relation over a symbolic bound lattice (values beyond +-pi, +-inf, NaN, equal and inverted pairs, dimension/length combinations): well-formed in-range arguments must be accepted with the stored value, a returned space must have well-formed stored bounds and be usable (sample / enforce / satisfy without panic or hang), error kinds as documented; state constructors canonicalise (angle lattice x windings up to 1e3, magnitudes to 1e300; quaternion normalisation)", "6 C12"),
 'C13': ("generated layouts (1-4 components, weights 0 / tiny / 1 / large): the compound operation is compared with the same operation assembled from the real component spaces by the documented law (distance, component-wise interpolate / enforce / satisfy, resolution, one scripted word stream consumed in component order); SE(2)/SE(3) bitwise equal to the explicitly built compound with weights (1, w)", "6 C13"),
 'C14': ("sampler refinement, not goodness of fit: with a scripted generator the real samplers must map the word's top bits to the cell of an equal partition (a bijection, one word per coordinate, in order), take the SO(3) accept/reject decision of the exact integer ball test on the word lattice, output the radial projection, and reject (not clamp) out-of-cone candidates; TLC checks the accept set's symmetry on the cell lattice; Haar-uniformity of 'uniform in the ball, normalised' is the classical theorem (cited)", "6 C14"),
 'C15': ("model invariants C15_WellFormed / C15_CostMono in every reachable state (the <= rewiring mutant of the spec yields a cycle counterexample); the monitor rebuilds every tree from Push/Rewire hook events, checks parents, acyclicity at every rewire, cost monotonicity, and equality with the end-of-call snapshot", "6 C15"),
 'C16': ("monitor rules on every recorded iteration: parent in ArgMin of the logged distance ranks, steer rule (bitwise sample when near, exactly one step on the geodesic when far), nothing added on a blocked motion / something added on a free one (independent three-valued oracle), Bernoulli goal bias, RRT-Connect balance and single connect extension; TLC exhausts the bounded models", "6 C16"),
 'C17': ("RRTStar.tla carries plain RRT's tree in lock step: invariants C17_CostUpper, C17_LastStep (cheapest valid parent, exactly the strictly cheaper valid rewires, frame) and C17_VsRRT; the monitor checks cost equalities, best parent over oracle-free candidates, the rewire set and the frame condition on the implementation", "6 C17"),
 'C18': ("PRM.tla invariants C18_Graph / C18_Complete / C18_QueryComplete with any hop-minimal chain allowed; the monitor rebuilds the roadmap per sample, checks justification and completeness of every link, symmetry, snapshot equality, query completeness and hop-minimality by BFS inside TLC", "6 C18"),
 'C19': ("the binding layer as a translation: generated scenarios (6 problem-definition variants x RRT / RRT-Connect / RRT* x worlds x seeds) run through the Python API and through the Rust core with bit-identical callbacks; the hashed callback streams (every is_valid / is_satisfied / sample_goal with state bits and answer) and the returned paths must be equal call by call (TLC stream monitor, tag C19); Python PRM paths are checked for soundness against the Python callbacks; 255 wrapper values (constructor outcomes over the bound lattice incl. NaN/inf, extents, distances, canonicalised angles) bitwise equal to the core, ValueError exactly where the core errs", "6 C19"),
 'C20': ("fault enumeration through the Python API: fault kind (raise / None / int / str) x schedule (k-th call, every state in a region) x callback (validity, goal satisfaction) x variants x planners; the run with the failing callback must equal, call for call and in its result, the run whose callback answers False at those same calls (TLC stream monitor, tag C20), and no path may pass through (validity) or end at (goal) a state on which the callback failed", "6 C20"),
}
CAT = {k: v['level'] for k, v in PROPS.items()}

def hooks_commits():
    out = subprocess.run(['git', '-C', REPO, 'log', '--format=%h %s'], stdout=subprocess.PIPE, text=True).stdout
    return [l.split()[0] for l in out.splitlines() if 'verif hooks' in l]

checks = []
for pid in ids:
    if pid not in PROPS: continue
    txt, ref = TEXT.get(pid, ("see DESIGN.md", "6"))
    checks.append({
        'property_id': pid,
        'quick_cmd': f'bin/check {pid} --tier quick',
        'thorough_cmd': f'bin/check {pid} --tier thorough',
        'evidence_file': f'/verif/evidence/{pid}.json',
        'replay_cmd_template': f'bin/check {pid} --replay {{path}}',
        'engine': ','.join(PROPS[pid]['engines']),
        'level_claimed': {'category': CAT[pid], 'text': txt, 'design_ref': 'DESIGN.md section ' + ref},
        'level_note': 'bounded: lattice sizes, iteration depth and call-history length as listed in the evidence; trusted base: TLC, the harness annotator (measures only), the add-only hooks (cross-checked against snapshots)',
        'technique': PROPS[pid].get('technique', 'TLA+ specification model-checked with TLC; TLC-generated behaviours replayed on the real code; recorded traces validated by a TLC trace monitor'),
    })
NA = {
}
NOTE_C20 = 'oxmpl-js (WASM) implements the same fail-closed policy but cannot be built or run offline in this sandbox (no wasm32 target, no wasm-bindgen); that half of the anchor is not covered'
na = [{'property_id': i, 'reason': NA.get(i, 'engine not built yet in this session (work in progress; DESIGN.md section 9)')} for i in ids if i not in PROPS]
m = {
 'version': 1,
 'setup_cmd': 'bin/setup',
 'hooks': {'guard': 'oxmpl_verif', 'enable': "rustflags --cfg oxmpl_verif (set in /verif/harness/.cargo/config.toml; the harness has a path dependency on /repo/oxmpl)",
           'baseline_off_cmd': 'cd /repo && cargo test --workspace --no-fail-fast --offline',
           'source_commits': hooks_commits(), 'add_only': True},
 'engines': [
   {'name': 'lat:<planner>', 'path': 'spec/{RRT,RRTStar,RRTConnect,PRM}.tla + MC_*.tla, harness/src/bin/latreplay.rs, spec/TraceMonitor.tla', 'serves_properties': [p for p in PROPS if any(e.startswith('lat:') for e in PROPS[p]['engines'])], 'kind_free_text': 'TLC model checking of the planner spec; every emitted history replayed on the real planner over a lattice space; trace validated by the TLC monitor'},
   {'name': 'real', 'path': 'harness/src/bin/realrun.rs, harness/src/annot.rs, spec/TraceMonitor.tla', 'serves_properties': [p for p in PROPS if 'real' in PROPS[p]['engines']], 'kind_free_text': 'real planners on the six real spaces, generated worlds, every iteration recorded and validated by the TLC monitor'},
   {'name': 'spaces', 'path': 'spec/Spaces.tla, MC_Spaces.tla, TraceSpaces.tla, harness/src/bin/spaces.rs', 'serves_properties': ['C09','C10','C11','C12','C13','C14'], 'kind_free_text': 'exact lattice models; every lattice case evaluated on the real space functions and validated by TLC'},
   {'name': 'py', 'path': 'py/pydrive.py, harness/src/bin/pymirror.rs, spec/TraceMonitor.tla (EvStream, EvPy)', 'serves_properties': ['C19', 'C20'], 'kind_free_text': 'oxmpl-py built from /repo, scenarios run through Python and the core, streams compared by the TLC monitor'},
   {'name': 'api:<planner>', 'path': 'spec/PlannerAPI.tla, MC_PlannerAPI.tla', 'serves_properties': ['C07', 'C08'], 'kind_free_text': 'call sequences x fault schedules enumerated by TLC, executed on two same-seed instances'},
 ],
 'checks': checks,
 'not_applicable': na,
 'notes': 'All checks share engine runs through a cache keyed by the content hash of /repo sources, the machinery, tier and seed; model-checking output (spec only) is cached by spec hash.',
}
json.dump(m, open('/verif/MANIFEST.json', 'w'), indent=1)
print('checks:', [c['property_id'] for c in checks], 'n/a:', [x['property_id'] for x in na])
