"""Mirror of harness/src/tol.rs for the evidence files."""
TOLERANCES = [
    'ranking/threshold tie band: relative 1e-12 (inside it: inconclusive, never reported)',
    'real-space length unit: lvs/1000; monitor tolerance 2 units; lattice traces: unit 1/2 lattice step, tolerance 0',
    'on-segment defect: 1e-3 * lvs; motion oracle sampling step 0.02 * lvs with a Lipschitz-1 clearance certificate',
]
