"""Engines behind bin/check. See DESIGN.md sections 2-4."""
import os, sys, json, time, hashlib, subprocess, glob, re, shutil

ROOT = os.path.dirname(os.path.dirname(os.path.dirname(os.path.abspath(__file__))))   # /verif (or a snapshot of it)
BUILD = os.path.join(ROOT, 'build')
SPEC = os.path.join(ROOT, 'spec')
# the registered checks always look at /repo; VERIF_REPO is only set by bin/seeded_regression.py --scratch, which
# works on scratch copies of /repo and /verif so that it can run while /verif is being edited
REPO = os.environ.get('VERIF_REPO', '/repo')
HARNESS_BIN = os.path.join(BUILD, 'target', 'release')
JAVA_OPTS = '-Xss1g -Dtlc2.tool.queue.IStateQueue=StateDeque'


class ToolError(Exception):
    pass


def log(*a):
    print(*a, file=sys.stderr, flush=True)


def sha_of_files(paths, extra=''):
    h = hashlib.sha256()
    for p in sorted(paths):
        h.update(p.encode())
        try:
            with open(p, 'rb') as f:
                h.update(f.read())
        except OSError:
            h.update(b'<missing>')
    h.update(extra.encode())
    return h.hexdigest()[:20]


def files_under(root, pats):
    out = []
    for pat in pats:
        out.extend(glob.glob(os.path.join(root, pat), recursive=True))
    return [p for p in out if os.path.isfile(p)]


def repo_hash():
    fs = files_under(REPO, ['oxmpl/src/**/*.rs', 'oxmpl/Cargo.toml', 'Cargo.toml', 'Cargo.lock',
                            'oxmpl-py/src/**/*.rs', 'oxmpl-py/Cargo.toml', 'oxmpl-py/pyproject.toml'])
    return sha_of_files(fs)


def verif_hash():
    fs = files_under(ROOT, ['spec/*.tla', 'spec/*.cfg', 'harness/src/**/*.rs', 'harness/Cargo.toml',
                            'bin/check', 'bin/lib/*.py', 'bin/*.py', 'py/*.py', 'known_findings.json'])
    return sha_of_files(fs)


def spec_hash(module=None):
    """Hash of a module, its .cfg and everything it EXTENDS / INSTANCEs (transitively) among spec/*.tla;
    without a module: of the whole spec directory."""
    if module is None:
        return sha_of_files(files_under(ROOT, ['spec/*.tla', 'spec/*.cfg', 'bin/hist2ndjson.py']))
    seen, todo = set(), [module]
    while todo:
        m = todo.pop()
        f = os.path.join(SPEC, m + '.tla')
        if m in seen or not os.path.exists(f):
            continue
        seen.add(m)
        txt = open(f).read()
        for ln in re.findall(r'^\s*EXTENDS\s+(.*)$', txt, re.M):
            todo.extend(x.strip() for x in ln.split(','))
        todo.extend(re.findall(r'INSTANCE\s+(\w+)', txt))
    fs = [os.path.join(SPEC, m + '.tla') for m in seen] + [os.path.join(SPEC, module + '.cfg'), os.path.join(ROOT, 'bin', 'hist2ndjson.py')]
    return sha_of_files(fs)


def run(cmd, env=None, timeout=3600, cwd=None, stdout=None):
    e = dict(os.environ)
    if env:
        e.update({k: str(v) for k, v in env.items()})
    try:
        return subprocess.run(cmd, env=e, cwd=cwd, timeout=timeout, stdout=stdout or subprocess.PIPE,
                              stderr=subprocess.STDOUT if stdout is None else subprocess.PIPE, text=True)
    except subprocess.TimeoutExpired:
        raise ToolError(f"timeout after {timeout}s: {' '.join(cmd)[:200]}")


KILL_LABELS = ['C06/no-return[killed]', 'C15/path-extraction[killed]']


def run_guarded(cmd, work, timeout=3600, mem_kb=8_000_000, max_kills=10):
    """Runs a harness binary under an address-space limit and a wall-clock limit. A hang or an
    unbounded allocation in the code under test (e.g. path extraction walking a parent cycle) kills
    the process: the run in progress is recorded as data, skipped, and the rest is re-run."""
    progress = os.path.join(work, 'progress')
    killed = []
    while True:
        if os.path.exists(progress):
            os.remove(progress)
        full = cmd + ['--progress', progress] + (['--skip', ','.join(str(k) for k in killed)] if killed else [])
        sh = f"ulimit -v {mem_kb}; exec timeout {timeout} " + ' '.join("'" + c.replace("'", "'\\''") + "'" for c in full)
        p = subprocess.run(['bash', '-c', sh], stdout=subprocess.DEVNULL, stderr=subprocess.PIPE, text=True)
        if p.returncode == 0:
            return p, killed
        cur = None
        if os.path.exists(progress):
            try:
                cur = int(open(progress).read().strip())
            except ValueError:
                cur = None
        if cur is None or cur in killed or len(killed) >= max_kills:
            raise ToolError(f"{os.path.basename(cmd[0])} failed (rc={p.returncode}) and the run in progress could not be isolated: "
                            + p.stderr[-800:])
        log(f"[guard] {os.path.basename(cmd[0])} died (rc={p.returncode}) during run {cur}: recorded, skipping it")
        killed.append(cur)


_built = False


def build_harness():
    """Rebuilds the harness (and, through the path dependency, oxmpl from /repo's working tree with
    --cfg oxmpl_verif)."""
    global _built
    if _built:
        return
    t0 = time.time()
    p = run(['cargo', 'build', '--release', '--offline'], cwd=os.path.join(ROOT, 'harness'), timeout=1800,
            env={'CARGO_NET_OFFLINE': 'true'})
    if p.returncode != 0:
        raise ToolError('harness build failed:\n' + p.stdout[-3000:])
    log(f"[build] harness ok in {time.time() - t0:.1f}s")
    _built = True


# ------------------------------------------------------------------------------------------ TLC

def tlc_mc(module, env, workers=8, timeout=1800, emit=True, invariants=None, liveness=False):
    """Model-checks spec/<module>.tla with its .cfg under `env`; output depends only on the spec,
    so it is cached by the hash of spec + env."""
    envs = dict(env)
    if emit:
        envs['V_EMIT'] = '1'
    key = hashlib.sha256((spec_hash(module) + module + json.dumps(envs, sort_keys=True) + json.dumps(invariants) + 'v2-dumptrace' + ('live' if liveness else '')).encode()).hexdigest()[:20]
    d = os.path.join(BUILD, 'cache', 'mc', key)
    statf = os.path.join(d, 'stats.json')
    if os.path.exists(statf):
        st = json.load(open(statf))
        st['cached'] = True
        return st
    os.makedirs(d, exist_ok=True)
    meta = os.path.join(d, 'meta')
    out = os.path.join(d, 'out.txt')
    t0 = time.time()
    cfgpath = os.path.join(SPEC, module + '.cfg')
    if liveness:
        # same constants; the fair specification and the termination property, no VIEW (liveness
        # checking needs the real state graph) and no state constraint
        keep = []
        skipping = False
        for ln in open(cfgpath).read().splitlines():
            if ln.startswith('INVARIANTS') or ln.startswith('INVARIANT '):
                skipping = True
                continue
            if skipping and ln.startswith('  '):
                continue
            skipping = False
            if ln.startswith(('PROPERTY', 'ACTION_CONSTRAINT', 'VIEW', 'SPECIFICATION')):
                continue
            keep.append(ln)
        keep += ['SPECIFICATION FairSpec', 'PROPERTY Terminates']
        cfgpath = os.path.join(d, module + '_live.cfg')
        open(cfgpath, 'w').write('\n'.join(keep) + '\n')
        emit = False
    elif invariants is not None:
        # a witness run: same constants, only the listed invariants
        lines = open(cfgpath).read().splitlines()
        keep = []
        skipping = False
        for ln in lines:
            if ln.startswith('INVARIANTS') or ln.startswith('INVARIANT '):
                skipping = True
                continue
            if skipping and ln.startswith('  '):
                continue
            skipping = False
            if ln.startswith('PROPERTY') or ln.startswith('ACTION_CONSTRAINT'):
                continue
            keep.append(ln)
        keep.append('INVARIANTS')
        keep.extend('  ' + i for i in invariants)
        cfgpath = os.path.join(d, module + '_wit.cfg')
        open(cfgpath, 'w').write('\n'.join(keep) + '\n')
    with open(out, 'w') as f:
        p = subprocess.run(['timeout', str(timeout), 'tlc', '-workers', str(workers), '-dumpTrace', 'json', os.path.join(d, 'trace.json'),
                            '-metadir', meta, '-cleanup', '-noGenerateSpecTE', '-config', cfgpath,
                            os.path.join(SPEC, module + '.tla')],
                           env={**os.environ, **{k: str(v) for k, v in envs.items()}}, stdout=f,
                           stderr=subprocess.STDOUT, cwd=d)
    txt = open(out, errors='replace').read()
    shutil.rmtree(meta, ignore_errors=True)
    m = re.search(r'(\d+) states generated, (\d+) distinct states found', txt)
    viol = re.findall(r'Error: Invariant (\S+) is violated', txt) + re.findall(r'Error: Action property (\S+) is violated', txt)
    if 'Temporal properties were violated' in txt:
        viol.append('Terminates')
    ok = 'Model checking completed. No error has been found.' in txt
    st = {'module': module, 'env': envs, 'generated': int(m.group(1)) if m else 0, 'distinct': int(m.group(2)) if m else 0,
          'ok': ok, 'violated': viol, 'wall_s': round(time.time() - t0, 1), 'dir': d, 'rc': p.returncode}
    if not ok and not viol:
        tail = '\n'.join(l for l in txt.splitlines() if 'HIST' not in l)[-2000:]
        shutil.rmtree(d, ignore_errors=True)
        raise ToolError(f"TLC failed on {module} {envs}:\n{tail}")
    if emit:
        r = run([sys.executable, os.path.join(ROOT, 'bin', 'hist2ndjson.py'), out, os.path.join(d, 'hist.ndjson')])
        try:
            st.update(json.loads(r.stdout.strip().splitlines()[-1]))
        except Exception:
            raise ToolError('hist2ndjson failed: ' + r.stdout[-500:])
        # keep the counterexample text of a violated run, drop the bulky HIST lines
        with open(out, 'w') as f:
            f.write('\n'.join(l for l in txt.splitlines() if 'HIST' not in l))
    json.dump(st, open(statf, 'w'))
    st['cached'] = False
    prune_cache(os.path.join(BUILD, 'cache', 'mc'), keep=160)
    return st


def prune_cache(d, keep):
    """Model-checking results are keyed by spec hash: entries of superseded specs are dead weight."""
    try:
        ents = sorted((os.path.join(d, x) for x in os.listdir(d)), key=os.path.getmtime)
    except OSError:
        return
    for old in ents[:-keep]:
        shutil.rmtree(old, ignore_errors=True)


VIOL_RE = re.compile(r'VIOL (\d+) (\d+) \{(.*)\}')


def tlc_monitor(traces, timeout=1800, module='TraceMonitor'):
    """Validates trace files with spec/<module>.tla (one JVM per file, in parallel)."""
    procs = []
    for i, tr in enumerate(traces):
        d = tr + '.tm'
        shutil.rmtree(d, ignore_errors=True)
        os.makedirs(d)
        out = open(os.path.join(d, 'out.txt'), 'w')
        env = dict(os.environ)
        env['TRACE'] = tr
        env['JAVA_TOOL_OPTIONS'] = JAVA_OPTS
        p = subprocess.Popen(['timeout', str(timeout), 'tlc', '-workers', '1', '-metadir', os.path.join(d, 'meta'), '-cleanup',
                              '-noGenerateSpecTE', '-config', os.path.join(SPEC, module + '.cfg'),
                              os.path.join(SPEC, module + '.tla')], env=env, stdout=out, stderr=subprocess.STDOUT, cwd=d)
        procs.append((p, d, out, tr))
    viols = []
    events = 0
    for p, d, out, tr in procs:
        p.wait()
        out.close()
        txt = open(os.path.join(d, 'out.txt'), errors='replace').read()
        n = sum(1 for _ in open(tr))
        m = re.search(r'^(\d+) states generated, \d+ distinct', txt, re.M)
        if 'Model checking completed. No error has been found.' not in txt or not m or int(m.group(1)) != n + 1:
            tail = txt[-1500:]
            raise ToolError(f"trace monitor did not consume {tr} ({n} events): rc={p.returncode}\n{tail}")
        events += n
        for mm in VIOL_RE.finditer(txt):
            labels = re.findall(r'\\?"([^"\\]+)\\?"', mm.group(3))
            viols.append({'run': int(mm.group(1)), 'line': int(mm.group(2)), 'labels': labels, 'trace': tr})
        shutil.rmtree(d, ignore_errors=True)
    return viols, events


def trace_features(traces, limit=400000):
    """Counts which rules were actually exercised by the recorded executions (non-vacuity of the
    monitor's implications): read from the trace files before they are deleted."""
    f = {}

    def inc(k, n=1):
        f[k] = f.get(k, 0) + n
    seen = 0
    for t in traces:
        if not os.path.exists(t):
            continue
        for ln in open(t):
            seen += 1
            if seen > limit:
                f['truncated_after_events'] = limit
                return f
            try:
                e = json.loads(ln)
            except ValueError:
                continue
            ev = e.get('ev')
            inc('ev:' + str(ev))
            if ev == 'iter':
                inc('iter:kind=' + str(e.get('k')))
                for x in e.get('ext', []):
                    if x.get('add'):
                        inc('ext:added')
                        inc('ext:far' if x.get('far') == 1 else 'ext:near' if x.get('far') == 0 else 'ext:band')
                        if len(x.get('cov', [])) > 1:
                            inc('ext:multi-query-coverage')
                    else:
                        inc('ext:not-added(orc=%s)' % x.get('orc'))
                st = e.get('star', {})
                if st.get('on'):
                    inc('star:iterations')
                    if st.get('rew'):
                        inc('star:iterations-with-rewire')
                        inc('star:rewired-nodes', len(st['rew']))
                    if e.get('ext') and e['ext'][0].get('near') != st.get('par'):
                        inc('star:parent-not-nearest')
                    if any(o == 1 for o in st.get('orc', [])):
                        inc('star:blocked-candidate-present')
                if len(e.get('ext', [])) == 2 and all(x.get('add') for x in e['ext']):
                    inc('rrtc:both-trees-extended')
            elif ev == 'ret':
                inc('ret:' + str(e.get('kind')))
                if e.get('kind') == 'ok':
                    inc('ret:ok-path-states', len(e.get('path', [])))
            elif ev == 'psample':
                inc('prm:sample-valid' if e.get('valid') else 'prm:sample-invalid')
                for lk in e.get('links', []):
                    if lk.get('linked'):
                        inc('prm:links')
                    elif lk.get('inr') == 1:
                        inc('prm:in-radius-not-linked(orc=%s)' % lk.get('orc'))
            elif ev == 'query':
                inc('prm:queries')
            elif ev == 'stream' and e.get('inst') == 2:
                inc('stream:compared-calls')
                inc('stream:compared-draws', len(e.get('draws', [])))
            elif ev == 'pair':
                inc('pair:rrt-vs-rrtstar')
                if e.get('ok_star') and e.get('ok_rrt'):
                    inc('pair:both-ok')
                    if e.get('len_star', 0) < e.get('len_rrt', 0):
                        inc('pair:rrtstar-strictly-shorter')
            elif ev == 'sp':
                inc('sp:%s/%s' % (e.get('sp'), e.get('op')))
    return f


def merge_features(a, b):
    for k, v in b.items():
        a[k] = a.get(k, 0) + v
    return a


# ------------------------------------------------------------------------------- lattice engines

def q(**kw):
    return {k: str(v) for k, v in kw.items()}


# Model-checking configurations per planner and tier. Every entry is explored exhaustively by TLC
# with the deviation switches in the property-satisfying position; every emitted history is then
# executed on the real planner and validated by the monitor.
REG = dict(V_TOPO='ring', V_N=8, V_PROBLEMS='region', V_WORLDS='free', V_MAXD=2, V_MAXT=2, V_BIAS='0', V_RAD2=5, V_MAXCALLS=2)
LAT_CONFIGS = {
    'rrt': {
        'module': 'MC_RRT',
        'quick': [
            ('ring8-convex-bounds', q(**{**REG, 'V_REGION_HI': 4})),
            ('line5-allworlds', q(V_TOPO='line', V_N=5, V_MAXD=2, V_LVS=1, V_BIAS='p', V_MAXT=3, V_MAXCALLS=2, V_WORLDS='all')),
            ('ring6-few', q(V_TOPO='ring', V_N=6, V_MAXD=2, V_LVS=2, V_BIAS='0', V_MAXT=3, V_MAXCALLS=2, V_WORLDS='few')),
            ('grid3x3', q(V_TOPO='grid', V_N=9, V_W=3, V_MAXD=2, V_LVS=1, V_BIAS='0', V_MAXT=2, V_MAXCALLS=2, V_WORLDS='few', V_PROBLEMS='one')),
            ('line5-api', q(V_TOPO='line', V_N=5, V_MAXD=2, V_LVS=1, V_BIAS='1', V_MAXT=1, V_MAXCALLS=4, V_WORLDS='few', V_PROBLEMS='one')),
            # setup(problem, checker) in every combination of two problem objects and two checker objects, the
            # second checker walling off the middle or rejecting the start
            ('line5-api-recheck', q(V_TOPO='line', V_N=5, V_MAXD=2, V_LVS=1, V_BIAS='1', V_MAXT=1, V_MAXCALLS=5, V_WORLDS='free', V_WORLDS2='alt', V_CHECKERS='free', V_PROBLEMS='one')),
            # problem definitions with a second start state (walled off / invalid in some worlds)
            ('line5-twostarts', q(V_TOPO='line', V_N=5, V_MAXD=2, V_LVS=1, V_BIAS='0', V_MAXT=2, V_MAXCALLS=2, V_WORLDS='few', V_PROBLEMS='twostarts')),
        ],
        'thorough': [
            ('line7-allworlds', q(V_TOPO='line', V_N=7, V_MAXD=3, V_LVS=1, V_BIAS='p', V_MAXT=3, V_MAXCALLS=2, V_WORLDS='all')),
            ('ring8-few', q(V_TOPO='ring', V_N=8, V_MAXD=3, V_LVS=1, V_BIAS='p', V_MAXT=4, V_MAXCALLS=2, V_WORLDS='few')),
            ('grid3x3-few', q(V_TOPO='grid', V_N=9, V_W=3, V_MAXD=2, V_LVS=1, V_BIAS='0', V_MAXT=3, V_MAXCALLS=2, V_WORLDS='few', V_PROBLEMS='one')),
            ('line5-api5', q(V_TOPO='line', V_N=5, V_MAXD=2, V_LVS=1, V_BIAS='0', V_MAXT=0, V_MAXCALLS=5, V_WORLDS='few', V_PROBLEMS='one')),
        ],
    },
    'rrtstar': {
        'module': 'MC_RRTStar',
        'quick': [
            ('ring8-convex-bounds', q(**{**REG, 'V_REGION_HI': 4})),
            ('line5-allworlds', q(V_TOPO='line', V_N=5, V_MAXD=2, V_RAD2=5, V_LVS=1, V_BIAS='p', V_MAXT=2, V_MAXCALLS=2, V_WORLDS='all')),
            ('ring6-rewire', q(V_TOPO='ring', V_N=6, V_MAXD=2, V_RAD2=3, V_LVS=1, V_BIAS='0', V_MAXT=3, V_MAXCALLS=2, V_WORLDS='few', V_PROBLEMS='one')),
            ('grid3x2', q(V_TOPO='grid', V_N=6, V_W=3, V_MAXD=2, V_RAD2=5, V_LVS=1, V_BIAS='0', V_MAXT=3, V_MAXCALLS=2, V_WORLDS='few', V_PROBLEMS='one')),
            ('ring6-integer-radius', q(V_TOPO='ring', V_N=6, V_MAXD=1, V_RAD2=4, V_LVS=1, V_BIAS='0', V_MAXT=3, V_MAXCALLS=2, V_WORLDS='few', V_PROBLEMS='one')),
            ('line5-api', q(V_TOPO='line', V_N=5, V_MAXD=2, V_RAD2=5, V_LVS=1, V_BIAS='1', V_MAXT=1, V_MAXCALLS=4, V_WORLDS='free', V_PROBLEMS='one')),
            ('line5-api-recheck', q(V_TOPO='line', V_N=5, V_MAXD=2, V_RAD2=5, V_LVS=1, V_BIAS='1', V_MAXT=1, V_MAXCALLS=5, V_WORLDS='free', V_WORLDS2='alt', V_CHECKERS='free', V_PROBLEMS='one')),
            ('line5-twostarts', q(V_TOPO='line', V_N=5, V_MAXD=2, V_RAD2=5, V_LVS=1, V_BIAS='0', V_MAXT=2, V_MAXCALLS=2, V_WORLDS='few', V_PROBLEMS='twostarts')),
        ],
        'thorough': [
            ('line5-deep', q(V_TOPO='line', V_N=5, V_MAXD=2, V_RAD2=5, V_LVS=1, V_BIAS='p', V_MAXT=3, V_MAXCALLS=2, V_WORLDS='all')),
            ('ring6-deep', q(V_TOPO='ring', V_N=6, V_MAXD=2, V_RAD2=3, V_LVS=1, V_BIAS='0', V_MAXT=4, V_MAXCALLS=2, V_WORLDS='few', V_PROBLEMS='one')),
            ('ring8-wide', q(V_TOPO='ring', V_N=8, V_MAXD=2, V_RAD2=7, V_LVS=1, V_BIAS='0', V_MAXT=3, V_MAXCALLS=2, V_WORLDS='few', V_PROBLEMS='one')),
            ('grid3x3', q(V_TOPO='grid', V_N=9, V_W=3, V_MAXD=2, V_RAD2=5, V_LVS=1, V_BIAS='0', V_MAXT=3, V_MAXCALLS=2, V_WORLDS='few', V_PROBLEMS='one')),
        ],
    },
    'rrtc': {
        'module': 'MC_RRTConnect',
        'quick': [
            ('ring8-convex-bounds', q(**{**REG, 'V_REGION_HI': 4})),
            ('line5-allworlds', q(V_TOPO='line', V_N=5, V_MAXD=2, V_LVS=1, V_BIAS='p', V_MAXT=2, V_MAXCALLS=2, V_WORLDS='all')),
            ('ring6-few', q(V_TOPO='ring', V_N=6, V_MAXD=1, V_LVS=1, V_BIAS='0', V_MAXT=3, V_MAXCALLS=2, V_WORLDS='few', V_PROBLEMS='one')),
            ('grid3x2', q(V_TOPO='grid', V_N=6, V_W=3, V_MAXD=2, V_LVS=1, V_BIAS='0', V_MAXT=2, V_MAXCALLS=2, V_WORLDS='few', V_PROBLEMS='one')),
            ('line5-api', q(V_TOPO='line', V_N=5, V_MAXD=2, V_LVS=1, V_BIAS='1', V_MAXT=1, V_MAXCALLS=4, V_WORLDS='free')),
            ('line5-api-recheck', q(V_TOPO='line', V_N=5, V_MAXD=2, V_LVS=1, V_BIAS='1', V_MAXT=1, V_MAXCALLS=5, V_WORLDS='free', V_WORLDS2='alt', V_CHECKERS='free', V_PROBLEMS='one')),
            # problem definitions with a second start state (walled off / invalid in some worlds)
            ('line5-twostarts', q(V_TOPO='line', V_N=5, V_MAXD=2, V_LVS=1, V_BIAS='0', V_MAXT=2, V_MAXCALLS=2, V_WORLDS='few', V_PROBLEMS='twostarts')),
        ],
        'thorough': [
            ('line7-allworlds', q(V_TOPO='line', V_N=7, V_MAXD=2, V_LVS=1, V_BIAS='p', V_MAXT=3, V_MAXCALLS=2, V_WORLDS='all', V_PROBLEMS='one')),
            ('ring8-few', q(V_TOPO='ring', V_N=8, V_MAXD=1, V_LVS=1, V_BIAS='p', V_MAXT=5, V_MAXCALLS=2, V_WORLDS='few', V_PROBLEMS='one')),
            ('line6-allworlds-many', q(V_TOPO='line', V_N=6, V_MAXD=2, V_LVS=1, V_BIAS='p', V_MAXT=3, V_MAXCALLS=2, V_WORLDS='all')),
            ('line5-api', q(V_TOPO='line', V_N=5, V_MAXD=2, V_LVS=1, V_BIAS='0', V_MAXT=1, V_MAXCALLS=4, V_WORLDS='few', V_PROBLEMS='one')),
        ],
    },
    'prm': {
        'module': 'MC_PRM',
        'quick': [
            ('line5-allworlds', q(V_TOPO='line', V_N=5, V_RAD2=5, V_LVS=1, V_BUILD=2, V_MAXCALLS=3, V_WORLDS='all', V_PROBLEMS='one')),
            ('ring6-api', q(V_TOPO='ring', V_N=6, V_RAD2=3, V_LVS=1, V_BUILD=1, V_MAXCALLS=5, V_WORLDS='few', V_PROBLEMS='one')),
            ('grid3x2', q(V_TOPO='grid', V_N=6, V_W=3, V_RAD2=5, V_LVS=1, V_BUILD=2, V_MAXCALLS=3, V_WORLDS='few', V_PROBLEMS='one')),
            ('line5-api5', q(V_TOPO='line', V_N=5, V_RAD2=3, V_LVS=1, V_BUILD=2, V_MAXCALLS=5, V_WORLDS='free', V_PROBLEMS='one')),
            ('line5-api-goalregion', q(V_TOPO='line', V_N=5, V_RAD2=7, V_LVS=1, V_BUILD=3, V_MAXCALLS=3, V_WORLDS='free')),
            ('line6-integer-radius', q(V_TOPO='line', V_N=6, V_RAD2=4, V_LVS=1, V_BUILD=2, V_MAXCALLS=3, V_WORLDS='few', V_PROBLEMS='one')),
            ('line5-api-recheck', q(V_TOPO='line', V_N=5, V_RAD2=5, V_LVS=1, V_BUILD=1, V_MAXCALLS=6, V_WORLDS='free', V_WORLDS2='alt', V_CHECKERS='free', V_PROBLEMS='one')),
            ('line5-twostarts', q(V_TOPO='line', V_N=5, V_RAD2=3, V_LVS=1, V_BUILD=3, V_MAXCALLS=3, V_WORLDS='few', V_PROBLEMS='twostarts')),
        ],
        'thorough': [
            ('line5-many', q(V_TOPO='line', V_N=5, V_RAD2=5, V_LVS=1, V_BUILD=2, V_MAXCALLS=3, V_WORLDS='all')),
            ('line6-deep', q(V_TOPO='line', V_N=6, V_RAD2=5, V_LVS=1, V_BUILD=4, V_MAXCALLS=3, V_WORLDS='few', V_PROBLEMS='one')),
            ('grid3x3', q(V_TOPO='grid', V_N=9, V_W=3, V_RAD2=5, V_LVS=1, V_BUILD=3, V_MAXCALLS=3, V_WORLDS='few', V_PROBLEMS='one')),
            ('ring6-api6', q(V_TOPO='ring', V_N=6, V_RAD2=3, V_LVS=1, V_BUILD=1, V_MAXCALLS=6, V_WORLDS='few', V_PROBLEMS='one')),
        ],
    },
}

# As-pinned witnesses (DESIGN 5.0): the switch in the position of the pinned code MUST give a TLC
# counterexample - the finding in the spec's own terms and a non-vacuity check of the invariant.
WITNESSES = {
    # (name, module, env, invariants expected to be violated, invariants to check (None = the module's own list))
    'rrt': [('ValidateRoots=FALSE (as pinned)', 'MC_RRT', q(V_VALIDATE_ROOTS=0, V_WORLDS='few', V_PROBLEMS='one', V_BIAS='0'), ['C01_PathValid'], None),
            ('RestoreRng=FALSE (as pinned)', 'MC_RRT', q(V_RESTORE_RNG=0, V_WORLDS='free', V_PROBLEMS='one', V_BIAS='0', V_MAXCALLS=3, V_MAXT=0), ['C07_Provenance'], None),
            ('non-convex bounds (ring arc 0..5 of 8)', 'MC_RRT', q(**{**REG, 'V_REGION_HI': 5}), ['W_AlwaysInRegion'], ['W_AlwaysInRegion'])],
    'rrtstar': [('ValidateRoots=FALSE (as pinned)', 'MC_RRTStar', q(V_VALIDATE_ROOTS=0, V_WORLDS='few', V_PROBLEMS='one', V_BIAS='0'), ['C01_PathValid'], None),
                ('RewireStrict=FALSE (<= mutant)', 'MC_RRTStar', q(V_REWIRE_STRICT=0, V_WORLDS='few', V_PROBLEMS='one', V_BIAS='0', V_MAXT=3), ['C15_WellFormed'], None),
                ('RewireStrict=FALSE (<= mutant), first-minimum tie-break: implementation-shaped parent cycle', 'MC_RRTStar',
                 q(V_REWIRE_STRICT=0, V_NEAR_FIRST=1, V_TOPO='ring', V_N=7, V_MAXD=2, V_RAD2=3, V_MAXT=5, V_WORLDS='free', V_PROBLEMS='one', V_BIAS='0'),
                 ['C15_WellFormed'], ['C15_WellFormed']),
                ('rewiring reachable', 'MC_RRTStar', q(V_TOPO='ring', V_N=6, V_MAXD=2, V_RAD2=3, V_MAXT=4, V_WORLDS='few', V_PROBLEMS='one', V_BIAS='0'), ['W_NoRewire'], ['W_NoRewire']),
                ('non-nearest parent reachable', 'MC_RRTStar', q(V_TOPO='ring', V_N=6, V_MAXD=2, V_RAD2=3, V_MAXT=3, V_WORLDS='few', V_PROBLEMS='one', V_BIAS='0'), ['W_ParentIsNearest'], ['W_ParentIsNearest']),
                ('non-convex bounds', 'MC_RRTStar', q(**{**REG, 'V_REGION_HI': 5}), ['W_AlwaysInRegion'], ['W_AlwaysInRegion'])],
    'rrtc': [('ValidateRoots=FALSE (as pinned)', 'MC_RRTConnect', q(V_VALIDATE_ROOTS=0, V_WORLDS='few', V_PROBLEMS='one', V_BIAS='0'), ['C01_PathValid'], None),
             ('SetupUsesPlannerRng=FALSE (as pinned)', 'MC_RRTConnect', q(V_SETUP_PLANNER_RNG=0, V_WORLDS='free', V_PROBLEMS='one', V_BIAS='0', V_MAXT=0), ['C07_Provenance'], None),
             ('direct route reachable', 'MC_RRTConnect', q(V_WORLDS='free', V_PROBLEMS='one', V_BIAS='p', V_MAXT=2), ['W_NoDirect'], ['W_NoDirect']),
             ('join while growing start tree reachable', 'MC_RRTConnect', q(V_WORLDS='free', V_PROBLEMS='one', V_BIAS='p', V_MAXT=2), ['W_NoJoinStart'], ['W_NoJoinStart']),
             ('join while growing goal tree reachable', 'MC_RRTConnect', q(V_WORLDS='free', V_PROBLEMS='one', V_BIAS='p', V_MAXT=3), ['W_NoJoinGoal'], ['W_NoJoinGoal']),
             ('non-convex bounds', 'MC_RRTConnect', q(**{**REG, 'V_REGION_HI': 5}), ['W_AlwaysInRegion'], ['W_AlwaysInRegion'])],
    'prm': [('RestoreRng=FALSE (as pinned)', 'MC_PRM', q(V_RESTORE_RNG=0, V_WORLDS='free', V_PROBLEMS='one', V_MAXCALLS=4, V_BUILD=0), ['C07_Provenance'], None),
            ('successful query reachable', 'MC_PRM', q(V_WORLDS='free', V_PROBLEMS='one', V_MAXCALLS=3, V_BUILD=2), ['W_NoOk'], ['W_NoOk']),
            ('multi-hop path reachable', 'MC_PRM', q(V_WORLDS='free', V_PROBLEMS='one', V_MAXCALLS=3, V_BUILD=2, V_RAD2=5), ['W_NoLongChain'], ['W_NoLongChain'])],
}


# (name, environment[, options]); option reps = N: every emitted history is executed N times, each
# time with a different pseudo-random sample script
POCKET = q(V_FAULTS='none', V_APIWORLD='pocket7', V_CHECKERS='free', V_SHAPE='twophase')
API_CONFIGS = {
    'quick': [('api4-faults', q(V_MAXCALLS=4, V_MAXK=3)),
              ('api5-wellformed', q(V_MAXCALLS=5, V_FAULTS='none', V_VALIDALL=1)),
              # two-phase multi-query usage, two checker objects (one walls off the far end), problem and
              # checker objects re-installed in every combination: up to 8 calls
              ('api8-twophase-pocket', {**POCKET, 'V_MAXCALLS': '8'}, {'reps': 3})],
    'thorough': [('api5-faults', q(V_MAXCALLS=5, V_MAXK=4)),
                 ('api6-wellformed', q(V_MAXCALLS=6, V_FAULTS='none', V_VALIDALL=1)),
                 ('api9-twophase-pocket', {**POCKET, 'V_MAXCALLS': '9'}, {'reps': 8})],
}


def lattice_engine(planner, tier, seed, api=False):
    if api:
        conf = {'module': 'MC_PlannerAPI',
                'quick': [(c[0], {**c[1], 'V_PLANNER': planner}) + tuple(c[2:]) for c in API_CONFIGS['quick']],
                'thorough': [(c[0], {**c[1], 'V_PLANNER': planner}) + tuple(c[2:]) for c in API_CONFIGS['thorough']]}
    else:
        conf = LAT_CONFIGS[planner]
    cfgs = list(conf['quick']) + (list(conf['thorough']) if tier == 'thorough' else [])
    build_harness()
    ename = ('api:' if api else 'lat:') + planner
    res = {'engine': ename, 'planner': planner, 'configs': [], 'violations': [], 'samples': [],
           'states': 0, 'transitions': 0, 'traces': 0, 'events': 0, 'witnesses': [], 'label_counts': {}}
    work = os.path.join(BUILD, 'work', f"{'api' if api else 'lat'}-{planner}-{tier}")
    shutil.rmtree(work, ignore_errors=True)
    os.makedirs(work)
    for cfgent in cfgs:
        name, env = cfgent[0], cfgent[1]
        opts = cfgent[2] if len(cfgent) > 2 else {}
        t0 = time.time()
        st = tlc_mc(conf['module'], env, timeout=3000)
        if st['violated'] or not st['ok']:
            raise ToolError(f"specification {conf['module']} violates its own invariants {st['violated']} under {env} "
                            f"(see {st['dir']}/out.txt) - this is a defect of the model, not of the code")
        hist = os.path.join(st['dir'], 'hist.ndjson')
        if opts.get('reps', 1) > 1:
            lines = open(hist).read().splitlines()
            hist = os.path.join(work, f'{name}.hist')
            with open(hist, 'w') as f:
                for _ in range(opts['reps']):
                    f.write('\n'.join(lines) + '\n')
        nshards = 8 if st.get('kept_after_prefix_elimination', 0) > 4000 else 1
        trace = os.path.join(work, f'{name}.trace')
        twice = ['--twice'] if (api or 'api' in name) else []
        p, killed = run_guarded([os.path.join(HARNESS_BIN, 'latreplay'), '--in', hist, '--out', trace, '--shards', str(nshards),
                                 '--seed', str(seed)] + twice, work, timeout=1800)
        info = json.loads(p.stderr.strip().splitlines()[-1])
        traces = [trace] if nshards == 1 else [f'{trace}.{k}' for k in range(nshards)]
        viols, events = tlc_monitor(traces)
        for k in killed:
            viols.append({'run': k, 'line': 0, 'labels': list(KILL_LABELS), 'trace': None})
        hist_lines = None
        for v in viols:
            if hist_lines is None:
                hist_lines = open(hist).read().splitlines()
            for lab in v['labels']:
                res['label_counts'][lab] = res['label_counts'].get(lab, 0) + 1
                inp = json.loads(hist_lines[v['run'] - 1])
                fk = (inp.get('fault') or {}).get('f', 'none')
                # keep a few samples per (label, configuration, injected fault): known findings are
                # matched per sample, so a different provoking input must not be crowded out
                if sum(1 for x in res['violations'] if x['label'] == lab and x['cfg'] == name
                       and ((x['input'].get('fault') or {}).get('f', 'none') == fk)) < 4:
                    res['violations'].append({'label': lab, 'planner': planner, 'engine': ename, 'cfg': name,
                                              'run': v['run'], 'line': v['line'], 'mode': 'lattice', 'input': inp})
        if hist_lines is None:
            with open(hist) as f:
                first = f.readline()
            if first.strip():
                res['samples'].append({'cfg': name, 'history': json.loads(first)})
        res['configs'].append({'name': name, 'env': env, 'states': st['distinct'], 'transitions': st['generated'],
                               'histories': st.get('kept_after_prefix_elimination', 0), 'runs': info['runs'],
                               'events': events, 'distinct_final_snapshots': info['distinct_final_snapshots'],
                               'script_overruns': info['script_overruns'], 'violating_events': len(viols),
                               'mc_cached': st['cached'], 'wall_s': round(time.time() - t0, 1)})
        res['states'] += st['distinct']
        res['transitions'] += st['generated']
        res['traces'] += info['runs']
        res['events'] += events
        merge_features(res.setdefault('features', {}), trace_features(traces, limit=150000))
        for t in traces:
            os.remove(t)
    # C06 liveness: under weak fairness of the loop actions every call returns (small configuration,
    # no state constraint, the real state graph)
    if not api:
        live_env = q(V_WORLDS='few', V_PROBLEMS='one', V_BIAS='0', V_MAXT=2, V_MAXCALLS=2, V_BUILD=2)
        st = tlc_mc(conf['module'], live_env, timeout=900, liveness=True, workers=4)
        if st['violated'] or not st['ok']:
            raise ToolError(f"{conf['module']}: liveness property Terminates fails on the model: {st['dir']}/out.txt")
        res['liveness'] = {'property': 'Terminates == []<>(pc = "idle") under FairSpec', 'states': st['distinct'], 'ok': True}
        res['states'] += st['distinct']
        res['transitions'] += st['generated']
    # Witness configurations: each must be violated; the input history of TLC's counterexample is
    # then executed on the real planner and validated like any other history (directed coverage of
    # the interesting branches, and a regression test for every deviation that was repaired).
    whist = []
    for wname, module, env, expect, invs in ([] if api else WITNESSES.get(planner, [])):
        st = tlc_mc(module, env, emit=False, timeout=600, invariants=invs)
        res['witnesses'].append({'switch': wname, 'expected_violation': expect, 'violated': st['violated'],
                                 'as_expected': any(e in st['violated'] for e in expect)})
        tj = os.path.join(st['dir'], 'trace.json')
        if st['violated'] and os.path.exists(tj):
            try:
                last = json.load(open(tj))['counterexample']['state'][-1][1]
                e = lambda k, dflt: env.get(k, dflt)
                kind = e('V_TOPO', 'line')
                n = int(e('V_N', 5))
                w = int(e('V_W', 3))
                whist.append({'planner': planner, 'topo': {'kind': kind, 'n': n, 'w': w if kind == 'grid' else n},
                              'maxd': int(e('V_MAXD', 2)), 'rad2': int(e('V_RAD2', 5)) if planner in ('rrtstar', 'prm') else 0,
                              'lvs': int(e('V_LVS', 1)), 'bias': e('V_BIAS', 'p') if planner != 'prm' else '0', 'seeded': True,
                              'build': int(e('V_BUILD', 2)), **({'worlds': last['worlds']} if 'worlds' in last else {'valid': last['valid']}),
                              'probs': last['probs'], 'calls': last['hist'],
                              'witness': wname})
            except Exception as ex:  # noqa
                log(f'[witness] could not extract the counterexample history of {wname}: {ex}')
    if whist:
        hist = os.path.join(work, 'witness.hist')
        with open(hist, 'w') as f:
            for h in whist:
                f.write(json.dumps(h) + '\n')
        trace = os.path.join(work, 'witness.trace')
        p, killed = run_guarded([os.path.join(HARNESS_BIN, 'latreplay'), '--in', hist, '--out', trace, '--twice', '--seed', str(seed)],
                                work, timeout=600)
        viols, events = tlc_monitor([trace])
        for k in killed:
            viols.append({'run': k, 'line': 0, 'labels': list(KILL_LABELS), 'trace': None})
        for v in viols:
            for lab in v['labels']:
                res['label_counts'][lab] = res['label_counts'].get(lab, 0) + 1
                res['violations'].append({'label': lab, 'planner': planner, 'engine': ename, 'cfg': 'witness-replays', 'run': v['run'],
                                          'line': v['line'], 'mode': 'lattice', 'input': whist[v['run'] - 1]})
        res['configs'].append({'name': 'witness-replays', 'env': {}, 'states': 0, 'transitions': 0, 'histories': len(whist), 'runs': len(whist),
                               'events': events, 'distinct_final_snapshots': len(whist), 'script_overruns': 0,
                               'violating_events': len(viols), 'mc_cached': True, 'wall_s': 0,
                               'witnesses_replayed': [h['witness'] for h in whist]})
        res['traces'] += len(whist)
        res['events'] += events
        merge_features(res.setdefault('features', {}), trace_features([trace]))
        os.remove(trace)
    return res


# ---------------------------------------------------------------------------- real-space engine

def real_engine(tier, seed):
    """The real planners on the six real state spaces (generated worlds), every iteration recorded,
    annotated to integers/ranks and validated by the TLC trace monitor."""
    build_harness()
    work = os.path.join(BUILD, 'work', f'real-{tier}')
    shutil.rmtree(work, ignore_errors=True)
    os.makedirs(work)
    trace = os.path.join(work, 'real.trace')
    nshards = 8 if tier == 'thorough' else 4
    p, killed = run_guarded([os.path.join(HARNESS_BIN, 'realrun'), '--out', trace, '--shards', str(nshards), '--seed', str(seed),
                             '--tier', tier], work, timeout=7200)
    info = json.loads(p.stderr.strip().splitlines()[-1])
    index = {x['run']: x['desc'] for x in info['index']}
    traces = [f'{trace}.{k}' for k in range(nshards)]
    viols, events = tlc_monitor(traces, timeout=7200)
    for k in killed:
        viols.append({'run': k, 'line': 0, 'labels': list(KILL_LABELS), 'trace': None})
    res = {'engine': 'real', 'planner': '*', 'configs': [], 'violations': [], 'samples': [], 'states': 0, 'transitions': 0,
           'traces': info['runs'], 'events': events, 'witnesses': [], 'label_counts': {}}
    for v in viols:
        d = index.get(v['run'], {})
        for lab in v['labels']:
            res['label_counts'][lab] = res['label_counts'].get(lab, 0) + 1
            cfg = f"{d.get('space')}/{d.get('world')}"
            if sum(1 for x in res['violations'] if x['label'] == lab and x['cfg'] == cfg and x['planner'] == d.get('planner')) < 2:
                res['violations'].append({'label': lab, 'planner': d.get('planner'), 'engine': 'real', 'cfg': cfg, 'run': v['run'],
                                          'line': v['line'], 'mode': 'real', 'space': d.get('space'), 'world': d.get('world'),
                                          'input': {'realrun': True, 'run': v['run'], 'seed': seed, 'tier': tier, 'desc': d}})
    spaces = {}
    for d in index.values():
        k = d['space']
        spaces[k] = spaces.get(k, 0) + 1
    res['configs'].append({'name': 'real-spaces', 'runs': info['runs'], 'events': events, 'runs_per_space': spaces,
                           'distinct_final_snapshots': info['runs'], 'states': 0, 'transitions': 0})
    res['samples'] = [{'run': r, 'scenario': index[r]} for r in sorted(index)[:3]]
    res['features'] = trace_features(traces)
    for t in traces:
        os.remove(t)
    return res


# --------------------------------------------------------------------------------- spaces engine

def spaces_engine(tier, seed):
    """Lattice cases of every space function evaluated on the real spaces, validated by
    spec/TraceSpaces.tla against the exact models of spec/Spaces.tla; the laws on the models
    themselves are checked by TLC from MC_Spaces."""
    build_harness()
    st = tlc_mc('MC_Spaces', {}, emit=False, timeout=900)
    if not st['ok']:
        raise ToolError('MC_Spaces: the lattice models violate their own laws: see ' + st['dir'])
    work = os.path.join(BUILD, 'work', f'spaces-{tier}')
    shutil.rmtree(work, ignore_errors=True)
    os.makedirs(work)
    trace = os.path.join(work, 'spaces.trace')
    nshards = 8 if tier == 'thorough' else 2
    p = run([os.path.join(HARNESS_BIN, 'spaces'), '--out', trace, '--shards', str(nshards), '--seed', str(seed), '--tier', tier],
            stdout=subprocess.DEVNULL, timeout=3600)
    if p.returncode != 0:
        raise ToolError('spaces failed: ' + p.stderr[-1500:])
    traces = [f'{trace}.{k}' for k in range(nshards)]
    viols, events = tlc_monitor(traces, timeout=3600, module='TraceSpaces')
    res = {'engine': 'spaces', 'planner': '-', 'configs': [], 'violations': [], 'samples': [], 'states': events + 1,
           'transitions': events, 'traces': events, 'events': events, 'witnesses': [], 'label_counts': {}}
    cache = {}
    per_op = {}
    for t in traces:
        for ln in open(t):
            e = json.loads(ln)
            k = f"{e['sp']}/{e['op']}"
            per_op[k] = per_op.get(k, 0) + 1
            if len(res['samples']) < 4 and per_op[k] == 1:
                res['samples'].append(e)
    for v in viols:
        if v['trace'] not in cache:
            cache[v['trace']] = open(v['trace']).read().splitlines()
        e = json.loads(cache[v['trace']][v['line'] - 1])
        for lab in v['labels']:
            res['label_counts'][lab] = res['label_counts'].get(lab, 0) + 1
            cfg = f"{e['sp']}/{e['op']}"
            if sum(1 for x in res['violations'] if x['label'] == lab and x['cfg'] == cfg) < 3:
                res['violations'].append({'label': lab, 'planner': '-', 'engine': 'spaces', 'cfg': cfg, 'run': 0, 'line': v['line'],
                                          'mode': 'spaces', 'space': e['sp'], 'input': {'spaces_case': e, 'seed': seed, 'tier': tier}})
    res['configs'].append({'name': 'space-lattices', 'events': events, 'cases_per_space_op': per_op,
                           'distinct_final_snapshots': len(per_op), 'states': events + 1, 'transitions': events,
                           'model_laws_checked_by_TLC': 'MC_Spaces: So2Laws(8,12), RvLaws(5x5, 3x3x3), So3Laws(6,12), sampler accept-set symmetry'})
    for t in traces:
        os.remove(t)
    return res


# --------------------------------------------------------------------------------- python engine

def py_engine(tier, seed):
    """C19 / C20: the Python extension is built from /repo's working tree; TLC-independent scenario
    lists (variant x planner x worlds; fault kind x schedule) are run through the Python API and -
    for C19 - through the Rust core with bit-identical callbacks; the hashed callback streams are
    compared call by call by the TLC stream monitor."""
    build_harness()
    pyt = os.path.join(BUILD, 'pytarget')
    p = run(['cargo', 'build', '-p', 'oxmpl-py', '--offline', '--release', '--target-dir', pyt], cwd=REPO, timeout=1800,
            env={'CARGO_NET_OFFLINE': 'true'})
    if p.returncode != 0:
        raise ToolError('oxmpl-py build failed:\n' + p.stdout[-2000:])
    pydir = os.path.join(BUILD, 'py')
    os.makedirs(pydir, exist_ok=True)
    shutil.copy(os.path.join(pyt, 'release', 'liboxmpl_py.so'), os.path.join(pydir, 'oxmpl_py.so'))
    work = os.path.join(BUILD, 'work', f'py-{tier}')
    shutil.rmtree(work, ignore_errors=True)
    os.makedirs(work)
    scf = os.path.join(work, 'scenarios.json')
    drv = os.path.join(ROOT, 'py', 'pydrive.py')
    p = run([sys.executable, drv, 'scenarios', '--seed', str(seed), '--tier', tier, '--out', scf])
    if p.returncode != 0:
        raise ToolError('pydrive scenarios failed: ' + p.stdout[-800:])
    pyout = os.path.join(work, 'py_runs.ndjson')
    p = run([sys.executable, drv, 'run', '--scenarios', scf, '--out', pyout], env={'PYTHONPATH': pydir}, timeout=7200)
    if p.returncode != 0:
        raise ToolError('pydrive run failed: ' + p.stdout[-1500:])
    rsout = os.path.join(work, 'rust_runs.ndjson')
    p = run([os.path.join(HARNESS_BIN, 'pymirror'), '--scenarios', scf, '--out', rsout], stdout=subprocess.DEVNULL, timeout=7200)
    if p.returncode != 0:
        raise ToolError('pymirror failed: ' + (p.stderr or '')[-1500:])
    sc = json.load(open(scf))
    scen = {s['id']: s for s in sc['mirror'] + sc['faults']}
    py = [json.loads(l) for l in open(pyout)]
    rs = [json.loads(l) for l in open(rsout)]
    rsby = {r['id']: r for r in rs if 'id' in r}
    events = []
    runmap = {}
    run_no = 0

    def reset(desc):
        nonlocal run_no
        run_no += 1
        runmap[run_no] = desc
        events.append({'ev': 'reset', 'run': run_no, 'planner': desc.get('planner', 'py'), 'mode': 'python', 'space': desc.get('variant', '-'),
                       'lvs': 1, 'maxd': 0, 'rad': 0, 'tol': 0, 'bias': 'p', 'seeded': True, 'desc': desc})

    def kind_of(res):
        return res[0] if res[0] == 'ok' else 'err:' + str(res[1])

    def stream_pair(tag, a, b):
        # a = reference (inst 1), b = candidate (inst 2). A run ended by the wall-clock timeout is
        # compared on the common prefix only (how many iterations fit is not a decision).
        ha, hb = list(a['h']), list(b['h'])
        ra, rb = kind_of(a['result']), kind_of(b['result'])
        timeout = any('within timeout' in x for x in (ra, rb))
        if timeout:
            n = min(len(ha), len(hb))
            ha, hb = ha[:n], hb[:n]
            ra = rb = 'timeout-prefix'
        ids = {}
        def rid(x):
            return ids.setdefault(x, len(ids) + 1)
        resa = rid(('r', ra, a['result'][1] if a['result'][0] == 'ok' else 0))
        resb = rid(('r', rb, b['result'][1] if b['result'][0] == 'ok' else 0))
        if timeout:
            resb = resa
        events.append({'ev': 'stream', 'inst': 1, 'call': 1, 'draws': ha, 'res': resa, 'pan': False, 'tag': tag})
        events.append({'ev': 'stream', 'inst': 2, 'call': 1, 'draws': hb, 'res': resb, 'pan': False, 'tag': tag})

    nmirror = nfault = 0
    faults = {}
    for r in py:
        if r['mode'] == 'mirror':
            d = {'kind': 'mirror', **{k: scen[r['id']][k] for k in ('id', 'variant', 'planner', 'seed', 'maxd', 'radius', 'bias')}}
            if r['planner'] == 'prm':
                reset(d)
                if 'prm' in r:
                    events.append({'ev': 'pyprm', **r['prm']})
                continue
            reset(d)
            stream_pair('C19', rsby[r['id']], r)
            nmirror += 1
        elif r['mode'] == 'fault':
            faults.setdefault(r['id'], {})[r['twin']] = r
        elif r['mode'] == 'wrappers':
            rw = [x for x in rs if x.get('mode') == 'wrappers'][0]['values']
            reset({'kind': 'wrappers'})
            for a, b in zip(r['values'], rw):
                events.append({'ev': 'pywrap', 'kind': a[0], 'same': a == b})
            if len(r['values']) != len(rw):
                events.append({'ev': 'pywrap', 'kind': 'count', 'same': False})
    for fid, pair in faults.items():
        if True not in pair or False not in pair:
            continue
        d = {'kind': 'fault', **{k: scen[fid][k] for k in ('id', 'variant', 'planner', 'seed', 'fault')}}
        reset(d)
        stream_pair('C20', pair[True], pair[False])
        events.append({'ev': 'pyfault', 'hit': bool(pair[False]['path_hits_fault']),
                       'twin_same_kind': True})
        nfault += 1
    trace = os.path.join(work, 'py.trace')
    with open(trace, 'w') as f:
        for e in events:
            f.write(json.dumps(e) + '\n')
    viols, nev = tlc_monitor([trace], timeout=3600)
    res = {'engine': 'py', 'planner': '*', 'configs': [], 'violations': [], 'samples': [], 'states': nev + 1, 'transitions': nev,
           'traces': nmirror + nfault, 'events': nev, 'witnesses': [], 'label_counts': {}, 'programs': nmirror + nfault + 1,
           'disagreements_checked': sum(len(e.get('draws', [])) for e in events if e['ev'] == 'stream' and e['inst'] == 2)}
    for v in viols:
        d = runmap.get(v['run'], {})
        for lab in v['labels']:
            res['label_counts'][lab] = res['label_counts'].get(lab, 0) + 1
            if sum(1 for x in res['violations'] if x['label'] == lab) < 6:
                res['violations'].append({'label': lab, 'planner': d.get('planner'), 'engine': 'py', 'cfg': str(d.get('variant')), 'run': v['run'],
                                          'line': v['line'], 'mode': 'python', 'space': d.get('variant'),
                                          'input': {'python': True, 'seed': seed, 'tier': tier, 'scenario': d}})
    res['configs'].append({'name': 'python-api', 'mirror_runs': nmirror, 'fault_pairs': nfault, 'wrapper_values': len([e for e in events if e['ev'] == 'pywrap']),
                           'prm_soundness_runs': len([e for e in events if e['ev'] == 'pyprm']), 'events': nev,
                           'distinct_final_snapshots': nmirror + nfault, 'states': nev + 1, 'transitions': nev})
    res['samples'] = [runmap[k] for k in sorted(runmap)[:3]]
    res['features'] = trace_features([trace])
    return res


# ------------------------------------------------------------------- Apalache inductive invariant

def apalache_engine():
    """Discharges the inductive invariant of spec/StarInd.tla (RRT* link/rewire over an arbitrary
    non-negative metric, K = 5 nodes) with Apalache: base case and inductive step must report NoError;
    the `<=` rewiring variant must yield a counterexample. Depends on the spec only: cached."""
    key = hashlib.sha256((sha_of_files([os.path.join(SPEC, 'StarInd.tla')]) + 'apalache').encode()).hexdigest()[:20]
    d = os.path.join(BUILD, 'cache', 'apalache', key)
    f = os.path.join(d, 'result.json')
    if os.path.exists(f):
        r = json.load(open(f))
        r['engine_cached'] = True
        return r
    os.makedirs(d, exist_ok=True)
    t0 = time.time()
    runs = [('base', 'ConstInitStrict', 'Init', 0, 'NoError'), ('step', 'ConstInitStrict', 'IndInit', 1, 'NoError'),
            ('mutant-step(<=)', 'ConstInitLoose', 'IndInit', 1, 'Error')]
    obl = []
    for name, cinit, init, length, expect in runs:
        p = run(['timeout', '1500', 'apalache-mc', 'check', f'--cinit={cinit}', f'--init={init}', '--inv=IndInv', f'--length={length}',
                 f'--out-dir={os.path.join(d, "out")}', os.path.join(SPEC, 'StarInd.tla')], cwd=d, timeout=1600)
        m = re.search(r'The outcome is: (\w+)', p.stdout or '')
        outcome = m.group(1) if m else 'unknown'
        obl.append({'obligation': name, 'outcome': outcome, 'expected': expect, 'ok': outcome == expect})
        if not m:
            shutil.rmtree(d, ignore_errors=True)
            raise ToolError('apalache-mc gave no outcome for ' + name + ': ' + (p.stdout or '')[-600:])
    shutil.rmtree(os.path.join(d, 'out'), ignore_errors=True)
    if not all(o['ok'] for o in obl):
        shutil.rmtree(d, ignore_errors=True)
        raise ToolError(f'StarInd.tla: inductive invariant not discharged as expected: {obl}')
    r = {'engine': 'ind:star', 'planner': 'rrtstar', 'configs': [{'name': 'StarInd K=5 (Apalache)', 'obligations': obl, 'states': 0, 'transitions': 0,
                                                                  'distinct_final_snapshots': 0}],
         'violations': [], 'samples': [], 'states': 0, 'transitions': 0, 'traces': 0, 'events': 0, 'witnesses': [], 'label_counts': {},
         'obligations': 2, 'discharged': 2, 'wall_s': round(time.time() - t0, 1)}
    json.dump(r, open(f, 'w'))
    r['engine_cached'] = False
    return r


# ------------------------------------------------------------------------------------ properties

TREE = ['lat:rrt', 'lat:rrtstar', 'lat:rrtc']
ALL4 = TREE + ['lat:prm']
API4 = ['api:rrt', 'api:rrtstar', 'api:rrtc', 'api:prm']

REAL = ['real']
APIT = ['api:rrt', 'api:rrtstar', 'api:rrtc']
PROPS = {
    'C01': {'prefixes': ['C01/'], 'engines': ALL4 + API4 + REAL, 'level': 'model_checking'},
    'C02': {'prefixes': ['C02/'], 'engines': ALL4 + API4 + REAL, 'level': 'model_checking'},
    'C03': {'prefixes': ['C03/'], 'engines': ALL4 + API4 + REAL, 'level': 'model_checking'},
    'C04': {'prefixes': ['C04/'], 'engines': TREE + REAL, 'level': 'model_checking'},
    'C05': {'prefixes': ['C05/'], 'engines': ALL4 + API4 + REAL, 'level': 'model_checking'},
    'C06': {'prefixes': ['C06/'], 'engines': ALL4 + API4 + REAL, 'level': 'model_checking'},
    'C07': {'prefixes': ['C07/'], 'engines': ALL4 + API4 + REAL, 'level': 'model_checking'},
    'C08': {'prefixes': ['C08/'], 'engines': API4 + ALL4 + REAL, 'level': 'fault_enumeration'},
    'C09': {'prefixes': ['C09/'], 'engines': ['spaces'], 'level': 'model_checking'},
    'C10': {'prefixes': ['C10/'], 'engines': ['spaces'], 'level': 'model_checking'},
    'C11': {'prefixes': ['C11/'], 'engines': ['spaces'], 'level': 'model_checking'},
    'C12': {'prefixes': ['C12/'], 'engines': ['spaces'], 'level': 'model_checking'},
    'C13': {'prefixes': ['C13/'], 'engines': ['spaces'], 'level': 'model_checking'},
    'C14': {'prefixes': ['C14/'], 'engines': ['spaces'], 'level': 'other'},
    'C15': {'prefixes': ['C15/'], 'engines': TREE + APIT + REAL + ['ind:star'], 'level': 'model_checking'},
    'C19': {'prefixes': ['C19/'], 'engines': ['py'], 'level': 'translation_validation'},
    'C20': {'prefixes': ['C20/'], 'engines': ['py'], 'level': 'fault_enumeration'},
    'C16': {'prefixes': ['C16/'], 'engines': TREE + APIT + REAL, 'level': 'model_checking'},
    'C17': {'prefixes': ['C17/'], 'engines': ['lat:rrtstar', 'api:rrtstar'] + REAL + ['ind:star'], 'level': 'model_checking'},
    'C18': {'prefixes': ['C18/'], 'engines': ['lat:prm', 'api:prm'] + REAL, 'level': 'model_checking'},
}


def run_engine(name, tier, seed):
    """Engine results depend on /repo's working tree, the machinery, tier and seed; they are cached
    under that key so that the checks of different properties share one engine run."""
    key = hashlib.sha256(f'{name}|{tier}|{seed}|{repo_hash()}|{verif_hash()}'.encode()).hexdigest()[:20]
    d = os.path.join(BUILD, 'results')
    os.makedirs(d, exist_ok=True)
    f = os.path.join(d, f"{name.replace(':', '_')}-{key}.json")
    if os.path.exists(f):
        r = json.load(open(f))
        r['engine_cached'] = True
        return r
    t0 = time.time()
    kind, _, arg = name.partition(':')
    if kind == 'ind':
        return apalache_engine()
    if kind == 'lat':
        r = lattice_engine(arg, tier, seed)
    elif kind == 'api':
        r = lattice_engine(arg, tier, seed, api=True)
    elif kind == 'real':
        r = real_engine(tier, seed)
    elif kind == 'spaces':
        r = spaces_engine(tier, seed)
    elif kind == 'py':
        r = py_engine(tier, seed)
    else:
        raise ToolError('unknown engine ' + name)
    r['wall_s'] = round(time.time() - t0, 1)
    r['engine_cached'] = False
    json.dump(r, open(f, 'w'))
    # keep the results directory small
    olds = sorted(glob.glob(os.path.join(d, f"{name.replace(':', '_')}-*.json")), key=os.path.getmtime)
    for o in olds[:-4]:
        os.remove(o)
    return r


def load_known():
    p = os.path.join(ROOT, 'known_findings.json')
    if not os.path.exists(p):
        return {'findings': [], 'fixed': []}
    return json.load(open(p))


def finding_matches(f, pid, v):
    if f.get('property') != pid:
        return False
    if 'label_re' in f:
        if not re.fullmatch(f['label_re'], v['label']):
            return False
    lab = f.get('label', v['label'])
    if lab.endswith('*'):
        if not v['label'].startswith(lab[:-1]):
            return False
    elif lab != v['label']:
        return False
    if 'planner' in f and f['planner'] != v.get('planner'):
        return False
    if 'mode' in f and f['mode'] != v.get('mode'):
        return False
    if 'space_re' in f and not re.fullmatch(f['space_re'], v.get('space') or ''):
        return False
    if 'fault_re' in f:
        # the finding is tied to the injected fault that provokes it: the same panic message in a run
        # WITHOUT that fault is a different defect and is reported
        fault = ((v.get('input') or {}).get('fault') or {}).get('f', 'none')
        if not re.fullmatch(f['fault_re'], fault):
            return False
    return True


def run_check(pid, tier, seed):
    if pid not in PROPS:
        raise ToolError(f'property {pid} has no check (see MANIFEST.json not_applicable)')
    t0 = time.time()
    spec = PROPS[pid]
    engines = spec['engines']
    only = os.environ.get('VERIF_ENGINES')      # internal: restrict to some engines (seeded-change regression)
    if only:
        engines = [e for e in engines if e in only.split(',')] or engines
    results = [run_engine(e, tier, seed) for e in engines]
    known = load_known()
    viols = []
    counts = {}
    for r in results:
        for lab, n in r.get('label_counts', {}).items():
            if any(lab.startswith(p) for p in spec['prefixes']):
                counts[f"{r['engine']}:{lab}"] = n
        for v in r['violations']:
            if any(v['label'].startswith(p) for p in spec['prefixes']):
                viols.append(v)
    unknown = []
    known_hit = {}
    for v in viols:
        m = [f for f in known['findings'] if finding_matches(f, pid, v)]
        if m:
            k = json.dumps(m[0], sort_keys=True)
            known_hit.setdefault(k, []).append(v)
        else:
            unknown.append(v)
    for k, vs in known_hit.items():
        f = json.loads(k)
        print(f"KNOWN-FINDING: property={pid} {f.get('label', f.get('label_re'))} planner={f.get('planner', '*')} - {f.get('what', '')} "
              f"({len(vs)} sample occurrence(s) this run)")
    rdir = os.path.join(BUILD, 'replays', pid)
    shutil.rmtree(rdir, ignore_errors=True)
    seen = set()
    for v in unknown:
        key = (v['engine'], v['label'], v.get('cfg'))
        if key in seen:
            continue
        seen.add(key)
        os.makedirs(rdir, exist_ok=True)
        fname = f"{v['engine']}-{v.get('cfg', 'x')}-run{v['run']}-line{v.get('line', 0)}-{v['label']}"
        path = os.path.join(rdir, re.sub(r'[^A-Za-z0-9.-]+', '_', fname) + '.json')
        json.dump({'property': pid, 'label': v['label'], 'engine': v['engine'], 'planner': v.get('planner'),
                   'cfg': v.get('cfg'), 'input': v.get('input'), 'tier': tier, 'seed': seed}, open(path, 'w'), indent=1)
        print(f"VIOLATION property={pid} replay={path}")
        log(f"  label={v['label']} engine={v['engine']} cfg={v.get('cfg')} run={v['run']}")
    write_evidence(pid, tier, seed, spec, results, counts, len(unknown), time.time() - t0, known_hit)
    return 1 if unknown else 0


def rule_text(results):
    kinds = {r['engine'].split(':')[0] for r in results}
    parts = []
    if kinds & {'lat', 'api'}:
        parts.append('lattice/API engines: TLC explores each configuration exhaustively (all worlds / problems / sample sequences / call '
                     'histories / fault schedules within the stated bounds); every history it emits is executed on the real planner over a '
                     'lattice space and the recorded trace is validated event by event by spec/TraceMonitor.tla. evaluations = histories '
                     'executed; distinct_nontrivial = distinct (world, problem, final planner snapshot) triples the real planner reached '
                     '(counted by the harness).')
    if 'real' in kinds:
        parts.append('real engine: generated worlds on the six real spaces, two parameter sets per (scenario, planner), two same-seed '
                     'instances; each run counts as one evaluation and one distinct case (scenario x planner x parameter set).')
    if 'spaces' in kinds:
        parts.append('spaces engine: every lattice case (and its ulp / 2 pi / sign / scale representatives) of every space function is one '
                     'evaluation = one monitor state; distinct_nontrivial counts the distinct (space, operation) classes; the expected value '
                     'of each case is recomputed by TLC from the exact model of spec/Spaces.tla.')
    if 'py' in kinds:
        parts.append('python engine: programs = scenarios run through the Python API (mirror scenarios also through the Rust core, fault '
                     'scenarios twice: failing callback and return-False twin); disagreements_checked = callback records compared; '
                     'distinct_nontrivial = distinct scenarios.')
    if 'ind' in kinds:
        parts.append('ind:star: base case and inductive step of spec/StarInd.tla discharged by Apalache (and the <= variant refuted).')
    return ' '.join(parts)


def write_evidence(pid, tier, seed, spec, results, counts, nviol, wall, known_hit):
    from tolerances import TOLERANCES
    cov = {
        'states': sum(r.get('states', 0) for r in results),
        'transitions': sum(r.get('transitions', 0) for r in results),
        'traces_validated_against_impl': sum(r.get('traces', 0) for r in results),
        'trace_events_validated': sum(r.get('events', 0) for r in results),
        'samples': [s for r in results for s in r.get('samples', [])][:6] or [{'note': 'no passing sample recorded'}],
        'exhaustive': True,
        'evaluations': sum(r.get('traces', 0) for r in results),
        'distinct_nontrivial': sum(c.get('distinct_final_snapshots', 0) for r in results for c in r.get('configs', [])),
        'rule': rule_text(results),
        'engines': [{'engine': r['engine'], 'configs': r.get('configs', []), 'witnesses': r.get('witnesses', []), 'liveness': r.get('liveness'),
                     'wall_s': r.get('wall_s'), 'cached_result_for_same_tree': r.get('engine_cached', False)} for r in results],
        'labels_of_this_property_raised': counts,
        'rules_exercised_by_recorded_executions': {r['engine']: r.get('features', {}) for r in results if r.get('features')},
        'inductive_obligations_discharged_by_apalache': [c.get('obligations') for r in results if r['engine'] == 'ind:star' for c in r['configs']],
        'programs': sum(r.get('programs', 0) for r in results),
        'disagreements_checked': sum(r.get('disagreements_checked', 0) for r in results),
        'explanation': 'see rule; for C14 this is sampler refinement (word -> cell bijection, ball accept/reject decisions, word consumption, '
                       'cone rejection) against the specification of the sampler in Spaces.tla, NOT a goodness-of-fit test',
        'known_findings_matched': [json.loads(k) for k in known_hit],
    }
    ev = {
        'property_id': pid, 'tier': tier, 'seed': seed, 'level': spec['level'], 'coverage': cov,
        'assumptions': [
            'lattice spaces (harness/src/lattice.rs) are exact twins of spec/Metric.tla (tables compared by setup self-test)',
            'the annotator (harness/src/annot.rs) measures lengths/ranks with the space\'s own distance/interpolate (C09-C13 decide those)',
            'hooks under cfg(oxmpl_verif) are add-only; the monitor cross-checks them against end-of-call snapshots (C15/snapshot, C18/snapshot)',
        ] + TOLERANCES,
        'wall_s': round(wall, 1), 'violations': nviol,
        'engine_wall_s_total': round(sum((r.get('wall_s') or 0) for r in results), 1),
    }
    os.makedirs(os.path.join(ROOT, 'evidence'), exist_ok=True)
    json.dump(ev, open(os.path.join(ROOT, 'evidence', pid + '.json'), 'w'), indent=1)


def run_replay(pid, path):
    rp = json.load(open(path))
    build_harness()
    if rp['input'].get('spaces_case') or rp['input'].get('python'):
        # these engines are cheap: re-run them on the current tree and look for the same label on
        # the same case / scenario
        eng = 'spaces' if rp['input'].get('spaces_case') else 'py'
        r = spaces_engine(rp['input'].get('tier', 'quick'), rp['input'].get('seed', 1)) if eng == 'spaces' \
            else py_engine(rp['input'].get('tier', 'quick'), rp['input'].get('seed', 1))
        def same(v):
            if v['label'] != rp['label']:
                return False
            if eng == 'spaces':
                a, b = v['input']['spaces_case'], rp['input']['spaces_case']
                return a.get('sp') == b.get('sp') and a.get('op') == b.get('op')
            return v['input']['scenario'].get('id') == rp['input']['scenario'].get('id')
        hits = [v for v in r['violations'] if same(v)]
        for v in hits[:3]:
            print('monitor:', v['label'], json.dumps(v['input'])[:400])
        if hits:
            print(f"VIOLATION property={pid} replay={path}")
            return 1
        print('replay: the violation does not reproduce on the current tree')
        return 0
    work = os.path.join(BUILD, 'work', 'replay')
    shutil.rmtree(work, ignore_errors=True)
    os.makedirs(work)
    hist = os.path.join(work, 'hist.ndjson')
    trace = os.path.join(work, 'trace.ndjson')
    if rp['input'].get('realrun'):
        i = rp['input']
        p = run([os.path.join(HARNESS_BIN, 'realrun'), '--out', trace, '--seed', str(i['seed']), '--tier', i['tier'],
                 '--only', str(i['run'])], stdout=subprocess.DEVNULL)
    else:
        open(hist, 'w').write(json.dumps(rp['input']) + '\n')
        p = run([os.path.join(HARNESS_BIN, 'latreplay'), '--in', hist, '--out', trace, '--twice', '--seed', str(rp.get('seed', 1))],
                stdout=subprocess.DEVNULL)
    if p.returncode != 0:
        raise ToolError('replay run failed: ' + p.stderr[-1000:])
    viols, _ = tlc_monitor([trace])
    print(open(trace).read())
    hit = [v for v in viols if rp['label'] in v['labels']]
    for v in viols:
        print('monitor:', v['labels'], 'at event', v['line'])
    if hit:
        print(f"VIOLATION property={pid} replay={path}")
        return 1
    print('replay: the violation does not reproduce on the current tree')
    return 0
